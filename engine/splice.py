"""Undo "extract function / method / closure": callables that the reference tree does not have are spliced back into the
places that call them, when that can be done without changing behaviour.

Supported shapes of the new callable (after an optional docstring):
  expression helper   `return <expr>`                          - substituted wherever it is called, also inside expressions
  statement helper    straight-line statements, optional final `return <expr>`, returns only in tail position of nested
                      if/else, or inside one loop (then `return v` becomes `<targets> = v; break` and what follows the loop
                      becomes its `else:`) - spliced where the call is a whole statement: `h(..)`, `x = h(..)`, `a, b = h(..)`
New callables are: module-level functions, methods (called as `self.m(..)` from methods of the same class) and closures
defined inside a function, whose names the reference tree (refnames.json / refshapes.json) does not have.
Conditions: positional / keyword arguments only; a parameter that the body assigns is not substituted (the helper is
left alone); an argument that is not a plain name / attribute / constant is substituted only for a parameter the body
reads at most once; the helper's own locals must not collide with other names of the caller.  A callable that could not
be spliced everywhere stays (and is then analysed like any other function)."""
import ast
import copy


def _simple(e):
    return isinstance(e, (ast.Name, ast.Constant)) or (isinstance(e, ast.Attribute) and _simple(e.value)) or \
        (isinstance(e, ast.Subscript) and _simple(e.value) and isinstance(e.slice, (ast.Constant, ast.Name)))


def _body(fn):
    return [x for x in fn.body if not (isinstance(x, ast.Expr) and isinstance(x.value, ast.Constant) and isinstance(x.value.value, str))]


def _contains(stmts, kinds, stop=(ast.FunctionDef, ast.AsyncFunctionDef, ast.Lambda, ast.ClassDef)):
    for st in stmts:
        todo = [st]
        while todo:
            x = todo.pop()
            if isinstance(x, kinds):
                return True
            for c in ast.iter_child_nodes(x):
                if not isinstance(c, stop):
                    todo.append(c)
    return False


def _always_leaves(stmts):
    if not stmts:
        return False
    last = stmts[-1]
    if isinstance(last, (ast.Return, ast.Raise)):
        return True
    if isinstance(last, ast.If) and last.orelse:
        return _always_leaves(last.body) and _always_leaves(last.orelse)
    return False


def _assign(targets, value, like):
    if targets is None:
        return [ast.copy_location(ast.Expr(value=value), like)] if value is not None and not _simple(value) else []
    if value is None:
        value = ast.Constant(value=None)
    if len(targets) == 1 and isinstance(targets[0], ast.Name) and isinstance(value, ast.Name) and value.id == targets[0].id:
        return []
    if len(targets) == 1 and isinstance(targets[0], ast.Tuple) and isinstance(value, ast.Tuple) and len(value.elts) == len(targets[0].elts) \
            and all(isinstance(t, ast.Name) for t in targets[0].elts):
        # `a, b, c = a, x, y`: element by element (identities dropped) when no target is read by a later element
        pairs = [(t, v) for t, v in zip(targets[0].elts, value.elts) if not (isinstance(v, ast.Name) and v.id == t.id)]
        tn = {t.id for t, _ in pairs}
        if not any(isinstance(y, ast.Name) and y.id in tn for _, v in pairs for y in ast.walk(v)):
            return [ast.copy_location(ast.Assign(targets=[copy.deepcopy(t)], value=v), like) for t, v in pairs]
    return [ast.copy_location(ast.Assign(targets=copy.deepcopy(targets), value=value), like)]


def _loop_returns_to_breaks(loop, targets):
    """inside `loop` (not in inner loops / defs) every `return v` becomes `<targets> = v; break`; None if impossible"""
    if loop.orelse or _contains(loop.body, (ast.Break,), stop=(ast.FunctionDef, ast.AsyncFunctionDef, ast.Lambda, ast.ClassDef, ast.For, ast.While)):
        return None

    def conv(stmts):
        out = []
        for st in stmts:
            if isinstance(st, ast.Return):
                out += _assign(targets, st.value, st) + [ast.copy_location(ast.Break(), st)]
            elif isinstance(st, (ast.For, ast.While)):
                if _contains([st], (ast.Return,)):
                    return None
                out.append(st)
            elif isinstance(st, ast.If):
                b, o = conv(st.body), conv(st.orelse)
                if b is None or o is None:
                    return None
                st.body, st.orelse = b or [ast.Pass()], o
                out.append(st)
            elif isinstance(st, (ast.Try, ast.With)):
                if _contains([st], (ast.Return,)):
                    return None
                out.append(st)
            else:
                out.append(st)
        return out
    body = conv(loop.body)
    if body is None:
        return None
    loop.body = body
    return loop


def _only_returns(stmts):
    return all(isinstance(x, ast.Return) or (isinstance(x, ast.If) and _only_returns(x.body) and _only_returns(x.orelse)) for x in stmts)


def tail_form(stmts, targets, nest=1):
    """statements of a helper body rewritten so that every `return v` is `<targets> = v`; None when that is not possible
    without a jump"""
    out = []
    for i, st in enumerate(stmts):
        rest = stmts[i + 1:]
        if isinstance(st, ast.Return):
            if rest:
                return None
            return out + _assign(targets, st.value, st)
        if not _contains([st], (ast.Return,)):
            out.append(st)
            continue
        if isinstance(st, ast.If):
            b_leaves, o_leaves = _always_leaves(st.body), _always_leaves(st.orelse)
            b_has, o_has = _contains(st.body, (ast.Return,)), _contains(st.orelse, (ast.Return,))
            if b_leaves and (not o_has or o_leaves) and not (o_leaves and rest):
                deeper = nest
                if rest and not st.orelse and not _only_returns(rest):
                    # a guard clause (`if c: return X` with more work after it) becomes an if / else; a second one in
                    # what follows would make a pyramid of else-arms: nothing the reference could look like - such a
                    # helper is left as a function
                    if nest <= 0:
                        return None
                    deeper = nest - 1
                nb = tail_form(st.body, targets, nest)
                no = tail_form(st.orelse + rest, targets, deeper) if (st.orelse or rest) else []
            elif o_leaves and not b_has:
                nb = tail_form(st.body + rest, targets, nest)
                no = tail_form(st.orelse, targets, nest)
            else:
                return None
            if nb is None or no is None:
                return None
            new = ast.copy_location(ast.If(test=st.test, body=nb or [ast.copy_location(ast.Pass(), st)], orelse=no), st)
            return out + [new]
        if isinstance(st, (ast.For, ast.While)):
            lp = _loop_returns_to_breaks(st, targets)
            if lp is None or not rest:
                return None
            tail = tail_form(rest, targets, nest)
            if tail is None:
                return None
            lp.orelse = tail
            return out + [lp]
        return None
    return out


class _Params(ast.NodeTransformer):
    def __init__(self, bound):
        self.bound = bound

    def visit_Name(self, node):
        if node.id in self.bound and isinstance(node.ctx, ast.Load):
            return ast.copy_location(copy.deepcopy(self.bound[node.id]), node)
        return node

    def visit_Call(self, node):
        # `g(.., **kw)` where kw is the helper's own **kw: the keywords the call site gave take its place
        kws = []
        for k in node.keywords:
            b = self.bound.get(k.value.id) if (k.arg is None and isinstance(k.value, ast.Name)) else None
            if b is not None and hasattr(b, '_kwargs_extra'):
                kws.extend(copy.deepcopy(b._kwargs_extra))
            else:
                kws.append(k)
        node.keywords = kws
        # a helper made general with `p=None` parameters that it only passes on as `p=p`: at a call site that does not
        # give p, the spliced text would read `g(.., p=None)` where the reference has `g(..)` - passing None for a
        # keyword the caller never gave is taken to be the same as leaving it out
        node.keywords = [k for k in node.keywords if not (
            k.arg is not None and isinstance(k.value, ast.Name) and k.value.id == k.arg and k.arg in self.bound
            and getattr(self.bound[k.arg], '_is_default', False) and isinstance(self.bound[k.arg], ast.Constant) and self.bound[k.arg].value is None)]
        self.generic_visit(node)
        return node


def _bind(fn, call, is_method):
    """{param: argument expression} or None"""
    a = fn.args
    if a.vararg or a.posonlyargs or any(isinstance(x, ast.Starred) for x in call.args) or any(k.arg is None for k in call.keywords):
        return None
    params = [p.arg for p in a.args]
    if is_method:
        params = params[1:]
    kwonly = [p.arg for p in a.kwonlyargs]
    if len(call.args) > len(params):
        return None
    bound = dict(zip(params, call.args))
    extra = []
    for k in call.keywords:
        if k.arg not in params + kwonly or k.arg in bound:
            if a.kwarg and k.arg not in bound:
                extra.append(k)          # goes into **kwargs
                continue
            return None
        bound[k.arg] = k.value
    if a.kwarg:
        # `**header` is supported when the body only passes it on as `g(.., **header)`
        nm = a.kwarg.arg
        body_nodes = [y for x in fn.body for y in ast.walk(x)]
        uses = [y for y in body_nodes if isinstance(y, ast.Name) and y.id == nm]
        passed = [k for y in body_nodes if isinstance(y, ast.Call) for k in y.keywords if k.arg is None and isinstance(k.value, ast.Name) and k.value.id == nm]
        if len(uses) != len(passed) or not passed:
            return None
        marker = ast.Name(id=nm, ctx=ast.Load())
        marker._kwargs_extra = extra
        bound[nm] = marker
    pos_defaults = dict(zip(params[len(params) - len(a.defaults):] if not is_method else [p.arg for p in a.args][len(a.args) - len(a.defaults):], a.defaults))
    for p in params:
        if p not in bound:
            if p in pos_defaults:
                bound[p] = copy.deepcopy(pos_defaults[p])
                bound[p]._is_default = True
            else:
                return None
    for p, d in zip(kwonly, a.kw_defaults):
        if p not in bound:
            if d is None:
                return None
            bound[p] = copy.deepcopy(d)
            bound[p]._is_default = True
    return bound


def _uses(stmts, name):
    return sum(1 for st in stmts for x in ast.walk(st) if isinstance(x, ast.Name) and x.id == name and isinstance(x.ctx, ast.Load))


def _stores(stmts):
    out = set()
    for st in stmts:
        for x in ast.walk(st):
            if isinstance(x, ast.Name) and isinstance(x.ctx, (ast.Store, ast.Del)):
                out.add(x.id)
            if isinstance(x, ast.ExceptHandler) and x.name:
                out.add(x.name)
    return out


def _function_locals(stmts):
    """names the statements bind in the function's own scope (a comprehension's loop variables live in the comprehension)"""
    comp = set()
    for st in stmts:
        for x in ast.walk(st):
            if isinstance(x, ast.comprehension):
                comp |= {id(y) for y in ast.walk(x.target)}
    out = set()
    for st in stmts:
        for x in ast.walk(st):
            if isinstance(x, ast.Name) and isinstance(x.ctx, (ast.Store, ast.Del)) and id(x) not in comp:
                out.add(x.id)
            if isinstance(x, ast.ExceptHandler) and x.name:
                out.add(x.name)
    return out


def _live_after(f, st, name):
    """may the value `name` holds when statement st of f completes be read afterwards (before it is overwritten)?"""
    from .cfg import CFG, defs_in_stmt, header_exprs
    for x in ast.walk(f):
        if isinstance(x, (ast.FunctionDef, ast.AsyncFunctionDef, ast.Lambda)) and x is not f and \
                any(isinstance(y, ast.Name) and y.id == name for y in ast.walk(x)):
            return True
    cfg = CFG(f)
    start = cfg.stmt_node.get(st)
    if start is None:
        return True
    seen, todo = set(), list(cfg.succ[start])
    while todo:
        n = todo.pop()
        if n in seen:
            continue
        seen.add(n)
        node = cfg.nodes[n].stmt
        if node is not None:
            reads = any(isinstance(y, ast.Name) and y.id == name and isinstance(y.ctx, ast.Load)
                        for e in header_exprs(node) for y in ast.walk(e))
            if isinstance(node, ast.AugAssign) and isinstance(node.target, ast.Name) and node.target.id == name:
                reads = True
            if reads:
                return True
            if name in defs_in_stmt(node):
                continue
        todo.extend(cfg.succ[n])
    return False


def _ok_args(body, bound, targets=None):
    for p, arg in bound.items():
        if not _simple(arg) and _uses(body, p) > 1:
            return False
    stored = _stores(body) & set(bound)
    if not stored:
        return True
    # a parameter the body re-binds: only `v, a, b = helper(v, ..)` with `return v, x, y` - the caller's variable is
    # given the parameter's final value in any case
    if not isinstance(targets, list) or len(targets) != 1 or not isinstance(targets[0], ast.Tuple):
        return False
    tg = targets[0].elts
    rets = [x for st in body for x in ast.walk(st) if isinstance(x, ast.Return)]
    if not rets or not all(isinstance(r.value, ast.Tuple) and len(r.value.elts) == len(tg) for r in rets):
        return False
    for p in stored:
        arg = bound[p]
        if not isinstance(arg, ast.Name):
            return False
        idx = [i for i, t in enumerate(tg) if isinstance(t, ast.Name) and t.id == arg.id]
        if len(idx) != 1:
            return False
        if not all(isinstance(r.value.elts[idx[0]], ast.Name) and r.value.elts[idx[0]].id == p for r in rets):
            return False
    return True


def _positions(nodes, like, k):
    j = 0
    for n in nodes:
        for y in _ordered(n):
            if hasattr(y, 'lineno') or isinstance(y, (ast.expr, ast.stmt)):
                y.lineno, y.col_offset = like.lineno, like.col_offset + 10000 * (k + 1) + j
                y.end_lineno, y.end_col_offset = getattr(like, 'end_lineno', like.lineno), getattr(like, 'end_col_offset', 0)
                j += 1


def _ordered(node):
    out = []

    def rec(n):
        out.append(n)
        for c in ast.iter_child_nodes(n):
            rec(c)
    rec(node)
    return out


def _first_evaluated(st):
    """the call that is evaluated before anything else with an effect in statement st (a Return / Assign / Expr), when it
    is not the whole value: `return h(a).sum()`, `x = h(a)[0] + 1`, `g(h(a), b)`; None otherwise"""
    if isinstance(st, ast.Raise):
        # `raise helper(a, b)`: the helper builds the exception
        if st.exc is None or st.cause is not None or not isinstance(st.exc, ast.Call) or not _simple(st.exc.func):
            return None
        return st.exc
    if not isinstance(st, (ast.Return, ast.Assign, ast.Expr)) or st.value is None:
        return None
    if isinstance(st, ast.Assign) and not all(isinstance(t, ast.Name) for t in st.targets):
        return None
    e = st.value
    top = e
    while True:
        if isinstance(e, ast.Call):
            if isinstance(e.func, ast.Attribute) and not _simple(e.func):
                e = e.func.value          # the receiver comes first
                continue
            if _simple(e.func):
                if e is not top:
                    return e
                if e.args and not isinstance(e.args[0], ast.Starred):
                    e = e.args[0]
                    continue
            return None
        if isinstance(e, ast.Attribute):
            e = e.value
        elif isinstance(e, ast.Subscript):
            e = e.value
        elif isinstance(e, ast.BinOp):
            e = e.left
        elif isinstance(e, ast.Compare):
            e = e.left
        elif isinstance(e, ast.UnaryOp):
            e = e.operand
        elif isinstance(e, (ast.Tuple, ast.List)) and e.elts:
            e = e.elts[0]
        else:
            return None


class _RenameParam(ast.NodeTransformer):
    def __init__(self, old, new):
        self.old, self.new = old, new

    def visit_Name(self, node):
        if node.id == self.old:
            node.id = self.new
        return node


class _Swap(ast.NodeTransformer):
    def __init__(self, old, new):
        self.old, self.new = old, new

    def visit_Call(self, node):
        if node is self.old:
            return self.new
        self.generic_visit(node)
        return node


def splice(tree, known_top, known_methods, known_closures, top_functions):
    """tree: module AST.  known_top: names of module-level functions of the reference; known_methods: 'Class.method'
    quals of the reference; known_closures: {qual: [names of nested defs in the reference function]}.
    Returns notes."""
    notes = []
    helpers = {}          # key -> (fn, kind, owner class or enclosing function)
    for st in tree.body:
        if isinstance(st, ast.FunctionDef) and st.name not in known_top and not st.decorator_list:
            helpers[('top', st.name)] = (st, 'top', None)
        elif isinstance(st, ast.ClassDef):
            for s2 in st.body:
                if isinstance(s2, ast.FunctionDef) and (st.name + '.' + s2.name) not in known_methods and not s2.decorator_list \
                        and s2.args.args and s2.args.args[0].arg == 'self' and not s2.name.startswith('__'):
                    helpers[('method', st.name, s2.name)] = (s2, 'method', st)
    for qual, f in top_functions(tree):
        for s2 in ast.walk(f):
            if isinstance(s2, ast.FunctionDef) and s2 is not f and s2.name not in known_closures.get(qual, ()) and not s2.decorator_list \
                    and any(s2 in getattr(h, 'body', []) for h in ast.walk(f)):
                if qual in known_closures:          # only where the reference knows the enclosing function
                    helpers[('closure', qual, s2.name)] = (s2, 'closure', f)
    if not helpers:
        return notes

    def lookup(call, qual, f):
        """the helper a call refers to, or None"""
        fn = call.func
        if isinstance(fn, ast.Name):
            h = helpers.get(('closure', qual, fn.id)) or helpers.get(('top', fn.id))
            return h
        if isinstance(fn, ast.Attribute) and isinstance(fn.value, ast.Name) and fn.value.id == 'self' and '.' in qual:
            return helpers.get(('method', qual.split('.')[0], fn.attr))
        return None

    spliced, failed = {}, set()
    for qual, f in top_functions(tree):
        if any(f is h[0] for h in helpers.values()):
            continue
        for _round in range(4):          # a spliced body may itself call a new helper
            changed = False
            # (1) statement positions
            for holder in [f] + [x for x in ast.walk(f)]:
                for fld in ('body', 'orelse', 'finalbody'):
                    blk = getattr(holder, fld, None)
                    if not isinstance(blk, list) or not blk or not isinstance(blk[0], ast.stmt):
                        continue
                    i = 0
                    while i < len(blk):
                        st = blk[i]
                        call, targets = None, None
                        if isinstance(st, ast.Expr) and isinstance(st.value, ast.Call):
                            call = st.value
                        elif isinstance(st, ast.Assign) and isinstance(st.value, ast.Call):
                            call, targets = st.value, st.targets
                        elif isinstance(st, ast.Return) and isinstance(st.value, ast.Call):
                            call, targets = st.value, 'return'
                        h = lookup(call, qual, f) if call is not None else None
                        if h is None and not any(st is y for hh in helpers.values() for y in ast.walk(hh[0])):
                            # a helper of several statements whose call is the first thing the statement evaluates
                            # (`return h(a).sum()`): its statements go in front, its result expression into the statement
                            inner = _first_evaluated(st)
                            h2 = lookup(inner, qual, f) if inner is not None else None
                            if h2 is not None:
                                fn, kind, owner = h2
                                body = copy.deepcopy(_body(fn))
                                bound = _bind(fn, inner, kind == 'method')
                                key = (kind, getattr(owner, 'name', None) if kind != 'top' else None, fn.name)
                                locs = _function_locals(body) - set(bound or ())
                                others = {y.id for y in ast.walk(f) if isinstance(y, ast.Name)}
                                if bound is not None and len(body) > 1 and isinstance(body[-1], ast.Return) and body[-1].value is not None \
                                        and not _contains(body[:-1], (ast.Return, ast.Yield, ast.YieldFrom, ast.Global, ast.Nonlocal, ast.FunctionDef, ast.ClassDef, ast.Await), stop=()) \
                                        and _ok_args(body, bound) and not any(_live_after(f, st, nm_) or nm_ in {y.id for y in ast.walk(st) if isinstance(y, ast.Name)}
                                                                              for nm_ in sorted(locs & others)):
                                    new = [_Params(bound).visit(x) for x in body[:-1]]
                                    res = _Params(bound).visit(body[-1]).value
                                    for k_, x in enumerate(new):
                                        _positions([x], st, k_)
                                    _positions([res], inner, len(new))
                                    st2 = _Swap(inner, res).visit(st)
                                    blk[i:i + 1] = new + [st2]
                                    spliced[key] = spliced.get(key, 0) + 1
                                    changed = True
                                    i += len(new) + 1
                                    continue
                        if h is None or any(st is y for y in ast.walk(h[0])):
                            i += 1
                            continue
                        fn, kind, owner = h
                        body = copy.deepcopy(_body(fn))
                        bound = _bind(fn, call, kind == 'method')
                        key = (kind, getattr(owner, 'name', None) if kind != 'top' else None, fn.name)
                        pre = []
                        if bound is not None and isinstance(targets, list) and len(targets) == 1 and isinstance(targets[0], ast.Tuple):
                            # `v, a, b = helper(<expression>, ..)` where the helper re-binds that parameter and hands it
                            # back in v's place: the expression is bound to v first, the parameter reads v
                            rets = [x for s_ in body for x in ast.walk(s_) if isinstance(x, ast.Return)]
                            for p_ in sorted(_stores(body) & set(bound)):
                                if isinstance(bound[p_], ast.Name) or not rets:
                                    continue
                                tg = targets[0].elts
                                if not all(isinstance(r.value, ast.Tuple) and len(r.value.elts) == len(tg) for r in rets):
                                    continue
                                idx = [k_ for k_ in range(len(tg)) if all(isinstance(r.value.elts[k_], ast.Name) and r.value.elts[k_].id == p_ for r in rets)]
                                if len(idx) == 1 and isinstance(tg[idx[0]], ast.Name) and \
                                        not any(isinstance(y, ast.Name) and y.id == tg[idx[0]].id for a_ in call.args + [k.value for k in call.keywords] for y in ast.walk(a_)):
                                    tname = tg[idx[0]].id
                                    pre.append(ast.copy_location(ast.Assign(targets=[ast.Name(id=tname, ctx=ast.Store())], value=bound[p_]), st))
                                    bound = dict(bound)
                                    bound[p_] = ast.Name(id=tname, ctx=ast.Load())
                                    body = [_RenameParam(p_, tname).visit(x) for x in body]
                                    bound[tname] = bound.pop(p_)
                        if bound is None or not body or not _ok_args(body, bound, targets) or \
                                _contains(body, (ast.Yield, ast.YieldFrom, ast.Global, ast.Nonlocal, ast.FunctionDef, ast.ClassDef, ast.Await), stop=()):
                            failed.add(key); i += 1; continue
                        if len(body) == 1 and isinstance(body[0], ast.Return) and body[0].value is not None and targets != 'return' and targets is not None:
                            i += 1          # an expression helper in an assignment: left to step (2)
                            continue
                        locs = _function_locals(body) - set(bound)
                        others = {y.id for y in ast.walk(f) if isinstance(y, ast.Name)} - {y.id for y in ast.walk(st) if isinstance(y, ast.Name)}
                        if kind == 'closure':
                            others -= {y.id for y in ast.walk(fn) if isinstance(y, ast.Name)}
                        # (a local of the helper may share its name with a variable of the caller whose value is dead
                        # once the call statement is done: the other arm of an if, a variable re-bound before its next read)
                        if any(_live_after(f, st, nm_) for nm_ in sorted(locs & others)):
                            failed.add(key); i += 1; continue
                        if targets == 'return':
                            new = [_Params(bound).visit(x) for x in body]
                            if not _always_leaves(body):
                                new.append(ast.Return(value=ast.Constant(value=None)))
                        else:
                            new = tail_form(body, targets)
                            if new is None:
                                failed.add(key); i += 1; continue
                            new = pre + [_Params(bound).visit(x) for x in new]
                        if not new:
                            new = [ast.copy_location(ast.Pass(), st)]
                        for k_, x in enumerate(new):
                            _positions([x], st, k_)
                        blk[i:i + 1] = new
                        spliced[key] = spliced.get(key, 0) + 1
                        changed = True
                        i += len(new)
            # (2) expression helpers anywhere in expressions
            class _Expr(ast.NodeTransformer):
                def visit_Call(self, node):
                    self.generic_visit(node)
                    h = lookup(node, qual, f)
                    if h is None:
                        return node
                    fn, kind, owner = h
                    body = _body(fn)
                    if not (len(body) == 1 and isinstance(body[0], ast.Return) and body[0].value is not None):
                        return node
                    bound = _bind(fn, node, kind == 'method')
                    key = (kind, getattr(owner, 'name', None) if kind != 'top' else None, fn.name)
                    if bound is None or not _ok_args(body, bound) or _contains(body, (ast.Yield, ast.YieldFrom, ast.Await, ast.NamedExpr), stop=()):
                        failed.add(key)
                        return node
                    e = _Params(bound).visit(copy.deepcopy(body[0].value))
                    _positions([e], node, 0)
                    spliced[key] = spliced.get(key, 0) + 1
                    nonlocal_changed[0] = True
                    return e
            nonlocal_changed = [False]
            _Expr().visit(f)
            if not (changed or nonlocal_changed[0]):
                break
    # drop definitions nothing refers to any more
    for key, (fn, kind, owner) in helpers.items():
        k2 = (kind, getattr(owner, 'name', None) if kind != 'top' else None, fn.name)
        if k2 not in spliced:
            continue
        name = fn.name
        rest = [n for n in ast.walk(tree) if n is not fn and not any(n is y for y in ast.walk(fn))]
        still = any((isinstance(n, ast.Name) and n.id == name) or (isinstance(n, ast.Attribute) and n.attr == name) for n in rest)
        if not still:
            for holder in ast.walk(tree):
                for fld in ('body', 'orelse', 'finalbody'):
                    b = getattr(holder, fld, None)
                    if isinstance(b, list) and fn in b:
                        b.remove(fn)
                        if not b:
                            b.append(ast.copy_location(ast.Pass(), fn))
        notes.append('new %s %s() spliced back into %d call site(s)%s' % (
            {'top': 'function', 'method': 'method', 'closure': 'closure'}[kind], name, spliced[k2], '' if not still else ' (still referenced elsewhere)'))
    if spliced:
        ast.fix_missing_locations(tree)
    return notes


def closures_back(tree, known_top, ref_closures, top_functions):
    """Undo "closure turned into a module-level function": the reference function F defines a closure G(p..) that F no
    longer has, while F (and nobody else) calls a new module-level function H(p.., v..) whose extra parameters v are, at
    every call, given F's own variables of the same names - what G used to capture.  H's body is put back into F as G,
    in front of the first statement that calls it, and the calls drop the passed-through arguments.  Returns notes."""
    notes = []
    new_top = {st.name: st for st in tree.body if isinstance(st, ast.FunctionDef) and st.name not in known_top and not st.decorator_list}
    if not new_top:
        return notes
    for qual, f in top_functions(tree):
        want = ref_closures.get(qual) or {}
        have = {x.name for x in ast.walk(f) if isinstance(x, ast.FunctionDef) and x is not f}
        missing = [g for g in want if g not in have]
        if len(missing) != 1:
            continue
        gname, gparams = missing[0], want[missing[0]]
        for hname, h in list(new_top.items()):
            a = h.args
            if a.vararg or a.kwarg or a.kwonlyargs or a.posonlyargs:
                continue
            hparams = [p.arg for p in a.args]
            extra = [p for p in hparams if p not in gparams]
            if [p for p in hparams if p in gparams] != gparams or not extra:
                continue
            calls = [c for c in ast.walk(f) if isinstance(c, ast.Call) and isinstance(c.func, ast.Name) and c.func.id == hname]
            elsewhere = [n for n in ast.walk(tree) if isinstance(n, ast.Name) and n.id == hname and not any(n is y for y in ast.walk(f))]
            if not calls or elsewhere or gname in {n.id for n in ast.walk(f) if isinstance(n, ast.Name)}:
                continue
            ok = True
            for c in calls:
                bound = _bind(h, c, False)
                if bound is None or any(not (isinstance(bound[p], ast.Name) and bound[p].id == p) or getattr(bound[p], '_is_default', False) for p in extra):
                    ok = False
                    break
            # the captured variables must be F's own (parameters or locals)
            f_names = {n.id for n in ast.walk(f) if isinstance(n, ast.Name) and isinstance(n.ctx, ast.Store)} | {x.arg for x in f.args.args + f.args.kwonlyargs}
            if not ok or any(p not in f_names for p in extra):
                continue
            # defaults of the kept parameters keep their places (defaults align to the end of the parameter list)
            ndef = len(a.defaults)
            defaults = dict(zip(hparams[len(hparams) - ndef:], a.defaults))
            if any(p in defaults for p in extra):
                continue
            kept_defaults = [defaults[p] for p in gparams if p in defaults]
            g = ast.FunctionDef(name=gname, args=ast.arguments(posonlyargs=[], args=[ast.arg(arg=p) for p in gparams], kwonlyargs=[], kw_defaults=[],
                                                               defaults=kept_defaults), body=_body(h), decorator_list=[], returns=None, type_params=[])
            for c in calls:
                kept_pos = []
                for i_, a_ in enumerate(c.args):
                    if i_ < len(hparams) and hparams[i_] in extra:
                        continue
                    kept_pos.append(a_)
                c.args = kept_pos
                c.keywords = [k for k in c.keywords if k.arg not in extra]
                c.func.id = gname
            # in front of the first top-level statement of F that contains a call
            idx = min(i_ for i_, st in enumerate(f.body) if any(c is y for c in calls for y in ast.walk(st)))
            like = f.body[idx]
            ast.copy_location(g, like)
            for y in ast.walk(g):
                if hasattr(y, 'lineno') or isinstance(y, (ast.expr, ast.stmt)):
                    y.lineno, y.col_offset = like.lineno, max(0, like.col_offset - 1)
                    y.end_lineno, y.end_col_offset = like.lineno, like.col_offset
            f.body.insert(idx, g)
            tree.body.remove(h)
            new_top.pop(hname)
            notes.append('new function %s() put back into %s as its closure %s()' % (hname, qual, gname))
            break
    if notes:
        ast.fix_missing_locations(tree)
    return notes
