"""Syntax-directed path walker with value numbering.

Enumerates the intra-procedural paths through a statement list (forking at ``if``),
keeping an environment  name -> symbolic value  and an event list.  Values are either
linear combinations over atoms (``len(x#3)``, loop targets, ``f.tell()#2`` ...) or opaque
objects with a version number.  No solver is involved: equality of two values is
syntactic equality of normalised linear forms.

This is the machinery behind the "same variable *version*" obligations of C02/C04/C06/C16.
"""
import ast
import itertools

from .model import callee, src, norm


class Lin:
    """linear combination: {atom: coeff} + const"""
    __slots__ = ('terms', 'const')

    def __init__(self, terms=None, const=0):
        self.terms = {k: v for k, v in (terms or {}).items() if v != 0}
        self.const = const

    def __add__(self, o):
        t = dict(self.terms)
        for k, v in o.terms.items():
            t[k] = t.get(k, 0) + v
        return Lin(t, self.const + o.const)

    def __neg__(self):
        return Lin({k: -v for k, v in self.terms.items()}, -self.const)

    def __sub__(self, o):
        return self + (-o)

    def scale(self, c):
        return Lin({k: v * c for k, v in self.terms.items()}, self.const * c)

    def __eq__(self, o):
        return isinstance(o, Lin) and self.terms == o.terms and self.const == o.const

    def __hash__(self):
        return hash((frozenset(self.terms.items()), self.const))

    def __repr__(self):
        parts = []
        for k, v in sorted(self.terms.items(), key=lambda kv: str(kv[0])):
            nm = atom_name(k)
            parts.append(('%+d*' % v if v not in (1, -1) else ('+' if v == 1 else '-')) + nm)
        if self.const or not parts:
            parts.append('%+d' % self.const)
        return ' '.join(parts).lstrip('+')


def atom_name(a):
    if isinstance(a, tuple):
        if a[0] == 'len':
            return 'len(%s)' % (a[1],)
        return '%s:%s' % (a[0], a[1])
    return str(a)


class Obj:
    """opaque object value: label#version; `orig` links a compressed buffer to its input"""
    __slots__ = ('label', 'ver', 'orig', 'ctor', 'fields')

    def __init__(self, label, ver, orig=None, ctor=None, fields=None):
        self.label, self.ver, self.orig, self.ctor, self.fields = label, ver, orig, ctor, fields

    def __repr__(self):
        return '%s#%d' % (self.label, self.ver)

    def __eq__(self, o):
        return isinstance(o, Obj) and (self.label, self.ver) == (o.label, o.ver)

    def __hash__(self):
        return hash((self.label, self.ver))


class State:
    def __init__(self):
        self.env = {}
        self.events = []
        self.conds = []
        self.status = 'run'     # run | return | raise | continue | break
        self.counter = itertools.count(1)
        self.assume = {}        # normalised test text -> bool (scenario assumptions)

    def fork(self):
        s = State()
        s.env = dict(self.env)
        s.events = list(self.events)
        s.conds = list(self.conds)
        s.status = self.status
        s.assume = self.assume
        s.counter = self.counter      # shared: versions stay unique across forks
        return s

    def fresh(self, label, **kw):
        return Obj(label, next(self.counter), **kw)


class Walker:
    """Subclass and override `call(state, node)` / `on_stmt` to model repository
    vocabulary.  `ctor_names`: callee texts that build a record (kwargs kept)."""

    max_paths = 20000
    explore_handlers = False
    identity_calls = ()          # callees f(x) that return x (check_32, int, ...)
    ctor_prefixes = ()

    def __init__(self):
        self.paths = 0

    # ---- expressions -------------------------------------------------------
    def ev(self, st, e):
        if isinstance(e, ast.Constant):
            if isinstance(e.value, bool):
                return st.fresh('const:%r' % e.value)
            if isinstance(e.value, int):
                return Lin(const=e.value)
            return st.fresh('const:%r' % (e.value,))
        if isinstance(e, ast.Name):
            if e.id in st.env:
                return st.env[e.id]
            v = Obj('free:' + e.id, 0)
            return v
        if isinstance(e, ast.BinOp) and isinstance(e.op, (ast.Add, ast.Sub)):
            l, r = self.ev(st, e.left), self.ev(st, e.right)
            l, r = self.as_lin(l), self.as_lin(r)
            if l is not None and r is not None:
                return l + r if isinstance(e.op, ast.Add) else l - r
            return st.fresh('expr')
        if isinstance(e, ast.BinOp) and isinstance(e.op, ast.Mult):
            l, r = self.ev(st, e.left), self.ev(st, e.right)
            if isinstance(l, Lin) and not l.terms and isinstance(r, Lin):
                return r.scale(l.const)
            if isinstance(r, Lin) and not r.terms and isinstance(l, Lin):
                return l.scale(r.const)
            return st.fresh('expr')
        if isinstance(e, ast.Call):
            return self.ev_call(st, e)
        if isinstance(e, ast.IfExp):
            t = norm(e.test)
            if t in st.assume:
                return self.ev(st, e.body if st.assume[t] else e.orelse)
            return st.fresh('ifexp')
        if isinstance(e, ast.Attribute):
            base = self.ev(st, e.value)
            if isinstance(base, Obj) and base.fields and e.attr in base.fields:
                return base.fields[e.attr]
            return Obj('attr:%r.%s' % (base, e.attr), 0)
        return st.fresh('expr')

    def as_lin(self, v):
        if isinstance(v, Lin):
            return v
        if isinstance(v, Obj):
            return Lin({('val', repr(v)): 1})
        return None

    def ev_call(self, st, e):
        c = callee(e) or ''
        if c == 'len' and len(e.args) == 1:
            v = self.ev(st, e.args[0])
            return Lin({('len', repr(v)): 1})
        if c in self.identity_calls and e.args:
            return self.ev(st, e.args[0])
        r = self.call(st, e, c)
        if r is not None:
            return r
        if any(c.startswith(p) or c == p for p in self.ctor_prefixes) or c in ('ThriftObject.from_fields',):
            fields = {}
            for k in e.keywords:
                if k.arg:
                    fields[k.arg] = self.ev(st, k.value)
            name = c.split('.')[-1]
            if c.endswith('from_fields') and e.args and isinstance(e.args[0], ast.Constant):
                name = e.args[0].value
            for a in e.args:
                self.ev(st, a)
            return st.fresh('ctor:' + name, ctor=name, fields=fields)
        # evaluate arguments for their events (nested calls)
        for a in e.args:
            self.ev(st, a)
        for k in e.keywords:
            self.ev(st, k.value)
        if isinstance(e.func, ast.Attribute):
            self.ev(st, e.func.value)
        return st.fresh('call:' + (c or 'dyn'))

    def call(self, st, e, c):
        """override: model a call; return a value or None for default handling"""
        return None

    # ---- statements --------------------------------------------------------
    def assign(self, st, target, value):
        if isinstance(target, ast.Name):
            st.env[target.id] = value
        elif isinstance(target, (ast.Tuple, ast.List)):
            for i, t in enumerate(target.elts):
                self.assign(st, t, st.fresh('unpack%d' % i))
        else:
            self.store(st, target, value)

    def store(self, st, target, value):
        """attribute/subscript store; override to record"""
        pass

    def on_stmt(self, st, stmt):
        """hook called before each simple statement"""
        pass

    def walk(self, stmts, st):
        """generator of final states after executing stmts from state st"""
        if not stmts:
            yield st
            return
        head, rest = stmts[0], stmts[1:]
        for s1 in self.step(head, st):
            if s1.status != 'run':
                yield s1
            else:
                yield from self.walk(rest, s1)

    def step(self, stmt, st):
        self.paths += 1
        if self.paths > self.max_paths:
            raise RuntimeError('path explosion')
        if isinstance(stmt, ast.If) and norm(stmt.test) in st.assume:
            taken = st.assume[norm(stmt.test)]
            st.conds.append((stmt.test, taken))
            yield from self.walk(stmt.body if taken else stmt.orelse, st)
            return
        if isinstance(stmt, ast.If):
            a = st.fork()
            a.conds.append((stmt.test, True))
            self.on_branch(a, stmt, True)
            yield from self.walk(stmt.body, a)
            b = st.fork()
            b.conds.append((stmt.test, False))
            self.on_branch(b, stmt, False)
            yield from self.walk(stmt.orelse, b)
            return
        if isinstance(stmt, ast.Try):
            for s1 in self.walk(stmt.body, st.fork()):
                if s1.status == 'run' and stmt.orelse:
                    yield from self.walk(stmt.orelse, s1)
                else:
                    yield s1
            if self.explore_handlers:
                for h in stmt.handlers:
                    hs = st.fork()
                    hs.conds.append((h, True))
                    yield from self.walk(h.body, hs)
            return
        if isinstance(stmt, (ast.With, ast.AsyncWith)):
            for it in stmt.items:
                v = self.ev(st, it.context_expr)
                if it.optional_vars is not None:
                    self.assign(st, it.optional_vars, v)
            yield from self.walk(stmt.body, st)
            return
        if isinstance(stmt, (ast.For, ast.While)):
            yield from self.loop(stmt, st)
            return
        if isinstance(stmt, ast.Return):
            self.on_stmt(st, stmt)
            if stmt.value is not None:
                st.env['<return>'] = self.ev(st, stmt.value)
            st.status = 'return'
            yield st
            return
        if isinstance(stmt, ast.Raise):
            self.on_stmt(st, stmt)
            st.status = 'raise'
            yield st
            return
        if isinstance(stmt, ast.Continue):
            st.status = 'continue'
            yield st
            return
        if isinstance(stmt, ast.Break):
            st.status = 'break'
            yield st
            return
        if isinstance(stmt, (ast.FunctionDef, ast.ClassDef, ast.Import, ast.ImportFrom, ast.Pass,
                             ast.Global, ast.Nonlocal, ast.Assert, ast.Delete)):
            self.on_stmt(st, stmt)
            yield st
            return
        self.on_stmt(st, stmt)
        if isinstance(stmt, ast.Assign):
            v = self.ev(st, stmt.value)
            for t in stmt.targets:
                self.assign(st, t, v)
        elif isinstance(stmt, ast.AnnAssign):
            if stmt.value is not None:
                self.assign(st, stmt.target, self.ev(st, stmt.value))
        elif isinstance(stmt, ast.AugAssign):
            v = self.ev(st, stmt.value)
            self.aug(st, stmt, v)
        elif isinstance(stmt, ast.Expr):
            self.ev(st, stmt.value)
        yield st

    def aug(self, st, stmt, v):
        if isinstance(stmt.target, ast.Name):
            name = stmt.target.id
            old = st.env.get(name, Obj('free:' + name, 0))
            lo, lv = self.as_lin(old), self.as_lin(v)
            if isinstance(stmt.op, (ast.Add, ast.Sub)) and lo is not None and lv is not None:
                new = lo + lv if isinstance(stmt.op, ast.Add) else lo - lv
            else:
                new = st.fresh('aug')
            st.events.append(('aug', name, type(stmt.op).__name__, v, stmt))
            st.env[name] = new
        else:
            st.events.append(('augstore', norm(stmt.target), type(stmt.op).__name__, v, stmt))

    def on_branch(self, st, stmt, taken):
        pass

    def loop(self, stmt, st):
        """default inner-loop treatment: skip, or one iteration with the loop targets fresh"""
        skip = st.fork()
        yield from self.walk(stmt.orelse, skip) if stmt.orelse else iter([skip])
        one = st.fork()
        if isinstance(stmt, ast.For):
            self.ev(one, stmt.iter)
            self.assign(one, stmt.target, one.fresh('iter'))
        for s1 in self.walk(stmt.body, one):
            if s1.status in ('continue', 'break'):
                s1.status = 'run'
            yield s1
