"""Generator of behaviour-preserving twins (consistent rename of the locals of one function)."""
import ast
import builtins


class Renamer(ast.NodeTransformer):
    def __init__(self, names):
        self.names = names

    def visit_Name(self, node):
        if node.id in self.names:
            node.id = node.id + '_tw'
        return node

    def visit_ExceptHandler(self, node):
        if node.name in self.names:
            node.name = node.name + '_tw'
        self.generic_visit(node)
        return node


def locals_of(func, module_globals):
    params = {a.arg for a in func.args.posonlyargs + func.args.args + func.args.kwonlyargs}
    if func.args.vararg: params.add(func.args.vararg.arg)
    if func.args.kwarg: params.add(func.args.kwarg.arg)
    assigned, declared = set(), set()
    nested_params = set()
    for n in ast.walk(func):
        if isinstance(n, ast.Name) and isinstance(n.ctx, (ast.Store, ast.Del)):
            assigned.add(n.id)
        elif isinstance(n, (ast.Global, ast.Nonlocal)):
            declared |= set(n.names)
        elif isinstance(n, ast.ExceptHandler) and n.name:
            assigned.add(n.name)
        elif isinstance(n, (ast.FunctionDef, ast.Lambda)) and n is not func:
            a = n.args
            nested_params |= {x.arg for x in a.posonlyargs + a.args + a.kwonlyargs}
            if isinstance(n, ast.FunctionDef):
                declared.add(n.name)       # keep nested function names (qualnames are anchors)
        elif isinstance(n, (ast.Import, ast.ImportFrom)):
            for al in n.names:
                declared.add((al.asname or al.name).split('.')[0])
    return assigned - params - declared - nested_params - module_globals - set(dir(builtins))


def make_twin(src_path, qual):
    tree = ast.parse(open(src_path).read())
    mg = set()
    for st in tree.body:
        if isinstance(st, (ast.Assign, ast.AnnAssign)):
            for n in ast.walk(st):
                if isinstance(n, ast.Name) and isinstance(n.ctx, ast.Store):
                    mg.add(n.id)
        elif isinstance(st, (ast.FunctionDef, ast.ClassDef)):
            mg.add(st.name)
        elif isinstance(st, (ast.Import, ast.ImportFrom)):
            for al in st.names:
                mg.add((al.asname or al.name).split('.')[0])
    target = None
    def find(body, prefix):
        nonlocal target
        for st in body:
            if isinstance(st, ast.FunctionDef):
                if prefix + st.name == qual:
                    target = st
                find(st.body, prefix + st.name + '.')
            elif isinstance(st, ast.ClassDef):
                find(st.body, prefix + st.name + '.')
    find(tree.body, '')
    if target is None:
        return None, 0
    names = locals_of(target, mg)
    if not names:
        return None, 0
    Renamer(names).visit(target)
    ast.fix_missing_locations(tree)
    return '# twin\n# twin\n# twin\n' + ast.unparse(tree) + '\n', len(names)


