"""C01: categorical column with >=127 categories (int16/int32 codes) and at least
one missing value, written with data page v2, cannot be read back."""
import os, sys, tempfile, shutil
import numpy as np, pandas as pd
import fastparquet
from fastparquet import writer, write, ParquetFile

failures = []
d = tempfile.mkdtemp()
old = writer.DATAPAGE_VERSION
try:
    writer.DATAPAGE_VERSION = 2          # same effect as env FASTPARQUET_DATAPAGE_V2=1
    for ncat in (100, 127, 200, 40000):  # int8 codes / int16 / int16 / int32
        cats = [f"k{i:05d}" for i in range(ncat)]
        n = ncat + 20
        codes = np.arange(n) % ncat
        codes[3] = -1                    # a single missing cell
        df = pd.DataFrame({"c": pd.Categorical.from_codes(codes, cats)})
        fn = os.path.join(d, f"cat{ncat}.parq")
        write(fn, df, has_nulls=True)    # legal write, succeeds
        try:
            out = ParquetFile(fn).to_pandas()
        except Exception as e:
            failures.append(f"ncat={ncat} (codes {df.c.cat.codes.dtype}): read raised "
                            f"{type(e).__name__}: {str(e)[:120]}")
            continue
        same = (list(out.c.cat.categories) == cats
                and (out.c.cat.codes.values == df.c.cat.codes.values).all())
        if not same:
            failures.append(f"ncat={ncat}: data differ after round trip")
    # same untyped copy, no nulls needed: a row MultiIndex level with >=127 labels
    # (levels are written as categoricals, read into int64 code arrays)
    mi = pd.MultiIndex.from_arrays([np.arange(300) % 3, np.arange(300)], names=["g", "k"])
    df = pd.DataFrame({"v": np.arange(300.0)}, index=mi)
    fn = os.path.join(d, "mi.parq")
    write(fn, df)
    try:
        out = ParquetFile(fn).to_pandas()
        if [tuple(t) for t in out.index] != [tuple(t) for t in df.index] or out.v.tolist() != df.v.tolist():
            failures.append("MultiIndex frame: data differ after round trip")
    except Exception as e:
        failures.append(f"MultiIndex with a 300-label level: read raised {type(e).__name__}: {str(e)[:120]}")
finally:
    writer.DATAPAGE_VERSION = old
    shutil.rmtree(d, ignore_errors=True)

if failures:
    print("FAIL")
    for f in failures:
        print("  ", f)
    sys.exit(1)
print("OK")
