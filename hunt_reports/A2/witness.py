"""C02: min/max statistics written for categorical columns follow the order of
the category list, not the order of the stored values, so they do not describe
the column chunk (and fastparquet's own statistics filter then drops row groups
that contain matching rows)."""
import os, sys, tempfile, shutil, struct
import numpy as np, pandas as pd
from fastparquet import write, ParquetFile

failures = []
d = tempfile.mkdtemp()
try:
    # numeric labels, unordered categorical, categories not sorted
    df = pd.DataFrame({"c": pd.Categorical([30, 10, 20, 10, 30], categories=[30, 10, 20]),
                       "s": pd.Categorical(["b", "a", "zz", "a", "b"], categories=["b", "a", "zz"])})
    fn = os.path.join(d, "cat.parq")
    write(fn, df, stats=True)
    pf = ParquetFile(fn)
    chunks = {".".join(c.meta_data.path_in_schema): c.meta_data for c in pf.row_groups[0].columns}

    def raw(st, name):
        v = getattr(st, name, None) if st is not None else None
        if v is None:
            v = getattr(st, name + "_value", None) if st is not None else None
        return None if v is None else (v.encode() if isinstance(v, str) else bytes(v))

    st = chunks["c"].statistics
    if raw(st, "min") is not None or raw(st, "max") is not None:   # omitting min/max is acceptable
        got_min = struct.unpack("<q", raw(st, "min"))[0]
        got_max = struct.unpack("<q", raw(st, "max"))[0]
        if (got_min, got_max) != (10, 30):
            failures.append(f"column c holds values 10..30 but statistics say min={got_min} max={got_max}")

    st = chunks["s"].statistics
    if raw(st, "min") is not None or raw(st, "max") is not None:
        smin, smax = raw(st, "min"), raw(st, "max")
        if (smin, smax) != (b"a", b"zz"):
            failures.append(f"column s holds values b'a'..b'zz' but statistics say min={smin!r} max={smax!r}")

    # consequence: row-group pruning on these statistics loses rows
    full = pf.to_pandas()
    sel = pf.to_pandas(filters=[("c", "==", 10)])
    want = int((full["c"] == 10).sum())
    have = int((sel["c"] == 10).sum()) if len(sel) else 0
    if have != want:
        failures.append(f"filters=[('c','==',10)] returned {have} matching rows, the file has {want}")
finally:
    shutil.rmtree(d, ignore_errors=True)

if failures:
    print("FAIL")
    for f in failures:
        print("  ", f)
    sys.exit(1)
print("OK")
