"""C01: the documented per-column compression form {"col": {"type": ..., "args": ...}}
makes write() crash as soon as the column is categorical."""
import os, sys, tempfile, shutil
import numpy as np, pandas as pd
from fastparquet import write, ParquetFile

failures = []
d = tempfile.mkdtemp()
try:
    df = pd.DataFrame({"x": np.arange(6, dtype="int64"),
                       "c": pd.Categorical(["a", "b", "a", "c", "b", "a"])})
    specs = {
        "explicit column": {"c": {"type": "GZIP", "args": None}, "x": "SNAPPY"},
        "_default entry": {"x": None, "_default": {"type": "ZSTD", "args": {"level": 3}}},
    }
    # control: same spec style works when no column is categorical
    ctrl = os.path.join(d, "ctrl.parq")
    write(ctrl, df.assign(c=df.c.astype(object)), compression=specs["explicit column"])
    assert ParquetFile(ctrl).to_pandas()["c"].tolist() == df.c.tolist()

    for name, comp in specs.items():
        fn = os.path.join(d, "t.parq")
        try:
            write(fn, df, compression=comp)
            out = ParquetFile(fn).to_pandas()
            if out["c"].tolist() != df["c"].tolist() or out["x"].tolist() != df["x"].tolist():
                failures.append(f"{name}: data differ after round trip")
        except Exception as e:
            failures.append(f"{name}: write/read raised {type(e).__name__}: {e}")
finally:
    shutil.rmtree(d, ignore_errors=True)

if failures:
    print("FAIL")
    for f in failures:
        print("  ", f)
    sys.exit(1)
print("OK")
