"""C02: a categorical column with a missing value written in a non-nullable mode
(has_nulls=False, or has_nulls='infer', or a has_nulls list that omits it) is
accepted silently and produces a REQUIRED column whose dictionary-index stream
contains index 255 (the int8 code -1) - not a valid index into the dictionary
page, so a reader written from the specification cannot decode the page.
The write should either raise or store the cell as NULL in an OPTIONAL column."""
import os, sys, tempfile, shutil, struct
import numpy as np, pandas as pd
from fastparquet import write, ParquetFile


# --- minimal Thrift compact-protocol struct reader (spec only) -------------
def _varint(b, p):
    r = s = 0
    while True:
        c = b[p]; p += 1
        r |= (c & 0x7F) << s
        if not c & 0x80:
            return r, p
        s += 7

def _value(b, p, t):
    if t in (1, 2):
        return t == 1, p
    if t == 3:
        return b[p], p + 1
    if t in (4, 5, 6):
        v, p = _varint(b, p)
        return (v >> 1) ^ -(v & 1), p
    if t == 7:
        return struct.unpack_from("<d", b, p)[0], p + 8
    if t == 8:
        n, p = _varint(b, p)
        return bytes(b[p:p + n]), p + n
    if t in (9, 10):
        h = b[p]; p += 1
        n, et = h >> 4, h & 15
        if n == 15:
            n, p = _varint(b, p)
        out = []
        for _ in range(n):
            v, p = _value(b, p, et)
            out.append(v)
        return out, p
    if t == 12:
        return _struct(b, p)
    raise ValueError(t)

def _struct(b, p):
    out, last = {}, 0
    while True:
        h = b[p]; p += 1
        if h == 0:
            return out, p
        t, delta = h & 15, h >> 4
        if delta:
            fid = last + delta
        else:
            z, p = _varint(b, p)
            fid = (z >> 1) ^ -(z & 1)
        last = fid
        out[fid], p = _value(b, p, t)

def hybrid(b, bit_width, count):
    """RLE / bit-packed hybrid decoder (Encodings.md)."""
    out, p = [], 0
    while len(out) < count:
        h, p = _varint(b, p)
        if h & 1:
            nbytes = (h >> 1) * bit_width
            raw = bytes(b[p:p + nbytes]).ljust(nbytes, b"\0"); p += nbytes
            bits = np.unpackbits(np.frombuffer(raw, "u1"), bitorder="little").reshape(-1, bit_width)
            out.extend(int(x) for x in (bits * (1 << np.arange(bit_width))).sum(axis=1))
        else:
            w = (bit_width + 7) // 8
            out.extend([int.from_bytes(b[p:p + w], "little")] * (h >> 1)); p += w
    return out[:count]


failures = []
d = tempfile.mkdtemp()
try:
    df = pd.DataFrame({"c": pd.Categorical(["a", None, "b", "a"], categories=["a", "b"])})
    for mode in (False, "infer", []):
        fn = os.path.join(d, "c.parq")
        try:
            write(fn, df, has_nulls=mode)        # uncompressed, data page v1
        except (ValueError, TypeError):
            continue                             # refusing is fine
        pf = ParquetFile(fn)
        md = pf.row_groups[0].columns[0].meta_data
        se = pf._schema[1]
        optional = se.repetition_type == 1
        data = open(fn, "rb").read()
        pos = md.dictionary_page_offset
        ph, p = _struct(data, pos)               # dictionary page header
        ndict = ph[7][1]
        pos = p + ph[3]
        ph, p = _struct(data, pos)               # first data page header (v1)
        assert ph[1] == 0 and 5 in ph, "expected a v1 data page"
        nvals = ph[5][1]
        body = data[p:p + ph[3]]
        if optional:
            ln = struct.unpack_from("<I", body, 0)[0]
            defs = hybrid(body[4:4 + ln], 1, nvals)
            body = body[4 + ln:]
            nvals = sum(defs)
        idx = hybrid(body[1:], body[0], nvals)
        bad = [i for i in idx if i >= ndict]
        if bad:
            failures.append(f"has_nulls={mode!r}: column is {'OPTIONAL' if optional else 'REQUIRED'}, "
                            f"dictionary has {ndict} entries but the page stores indices {idx}")
finally:
    shutil.rmtree(d, ignore_errors=True)

if failures:
    print("FAIL")
    for f in failures:
        print("  ", f)
    sys.exit(1)
print("OK")
