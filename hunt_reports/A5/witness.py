"""C01: a frame whose row MultiIndex has a level named like one of its columns is
written without error, but the column's data are silently replaced by the index
level and the index loses that level."""
import os, sys, tempfile, shutil
import numpy as np, pandas as pd
from fastparquet import write, ParquetFile

failures = []
d = tempfile.mkdtemp()
try:
    idx = pd.MultiIndex.from_arrays([[1, 1, 2], [7, 8, 9]], names=["x", "a"])
    df = pd.DataFrame({"a": [0.5, 1.5, 2.5], "b": [10, 20, 30]}, index=idx)
    fn = os.path.join(d, "mi.parq")
    try:
        write(fn, df)
    except ValueError as e:
        # refusing the ambiguous frame (as pandas' reset_index and the
        # single-level Index path do) would be acceptable
        print("OK (write refused:", e, ")")
        sys.exit(0)
    out = ParquetFile(fn).to_pandas()
    got_a = [float(v) for v in out["a"].tolist()] if "a" in out.columns else None
    if got_a != [0.5, 1.5, 2.5]:
        failures.append(f"column 'a' was [0.5, 1.5, 2.5], read back {out['a'].tolist() if 'a' in out.columns else 'missing'} "
                        f"(dtype {out['a'].dtype if 'a' in out.columns else None})")
    if list(out.index.names) != ["x", "a"] or out.index.nlevels != 2:
        failures.append(f"row index had levels ['x', 'a'], read back index names {list(out.index.names)} "
                        f"with {out.index.nlevels} level(s)")
finally:
    shutil.rmtree(d, ignore_errors=True)

if failures:
    print("FAIL")
    for f in failures:
        print("  ", f)
    sys.exit(1)
print("OK")
