"""C01: with a multi-file layout (file_scheme='hive' or 'drill') any row-group
split that yields an empty slice makes write() crash with an internal
AttributeError and leaves a half-written dataset (0-byte part file, no
_metadata). That happens for a 0-row frame with row_group_offsets=0 or [0],
and for a non-empty frame whose offset list ends at len(df). The very same
calls succeed and round-trip with file_scheme='simple'."""
import os, sys, tempfile, shutil
import numpy as np, pandas as pd
from fastparquet import write, ParquetFile

empty = pd.DataFrame({"a": pd.Series([], dtype="int64"), "s": pd.Series([], dtype=object)})
three = pd.DataFrame({"a": np.array([1, 2, 3], dtype="int64"), "s": pd.Series(["x", None, "z"], dtype=object)})
cases = [("0 rows, row_group_offsets=0", empty, 0),
         ("0 rows, row_group_offsets=[0]", empty, [0]),
         ("3 rows, row_group_offsets=[0, 3]", three, [0, 3])]

failures = []
d = tempfile.mkdtemp()
try:
    for scheme in ("simple", "hive", "drill"):
        for i, (name, df, rgo) in enumerate(cases):
            fn = os.path.join(d, f"{scheme}{i}.parq")
            try:
                write(fn, df, file_scheme=scheme, row_group_offsets=rgo)
                out = ParquetFile(fn).to_pandas()
            except Exception as e:
                left = sorted(os.listdir(fn)) if os.path.isdir(fn) else None
                failures.append(f"{scheme}: {name}: {type(e).__name__}: {e}; directory left with {left}")
                continue
            if list(out.columns) != ["a", "s"] or len(out) != len(df) or out["a"].tolist() != df["a"].tolist():
                failures.append(f"{scheme}: {name}: round trip differs: {out.to_dict('list')}")
finally:
    shutil.rmtree(d, ignore_errors=True)

if failures:
    print("FAIL")
    for f in failures:
        print("  ", f)
    sys.exit(1)
print("OK")
