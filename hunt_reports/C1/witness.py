"""C05/C13: 'in' / 'not in' filters on a hive partition column lose every qualifying row.

filter_out_cats() casts the filter constant to the partition's recorded dtype with
val_to_num(val, meta) even when the constant is a *list* (the operand of 'in'/'not in').
For a text partition (pandas>=3 default `str` dtype -> numpy_type 'str') the list
['bb', 'cc'] becomes the single string "['bb', 'cc']", so every row group is pruned.
For a bool partition the list becomes a bare bool (TypeError in len()), for a datetime
partition np.datetime64(list) raises ValueError.
"""
import os
import sys
import tempfile

import numpy as np
import pandas as pd

from fastparquet import ParquetFile, write

problems = []
with tempfile.TemporaryDirectory() as d:
    n = 12
    df = pd.DataFrame({
        "x": np.arange(n),
        "p": ["aa", "bb", "cc"] * 4,                       # text partition
        "flag": [True, False] * 6,                         # bool partition
        "day": pd.to_datetime(["2020-01-01", "2020-01-02", "2020-01-03"] * 4),
    })

    # ---- text partition -------------------------------------------------
    fn = os.path.join(d, "by_text")
    write(fn, df[["x", "p"]], file_scheme="hive", partition_on=["p"])
    pf = ParquetFile(fn)
    want = sorted(df.x[df.p.isin(["bb", "cc"])])
    for rf in (False, True):
        got = sorted(pf.to_pandas(filters=[("p", "in", ["bb", "cc"])], row_filter=rf).x)
        if got != want:
            problems.append("text partition, ('p','in',['bb','cc']), row_filter=%s: got rows %s, expected %s"
                            % (rf, got, want))
    # sanity: '==' works, so the data and the partition are fine
    assert sorted(pf.to_pandas(filters=[("p", "==", "bb")]).x) == sorted(df.x[df.p == "bb"])
    cnt = pf.count(filters=[("p", "in", ["bb", "cc"])], row_filter=True)
    if cnt != len(want):
        problems.append("count(filters=('p','in',['bb','cc']), row_filter=True) = %s, expected %s" % (cnt, len(want)))

    # ---- bool partition -------------------------------------------------
    fn = os.path.join(d, "by_bool")
    write(fn, df[["x", "flag"]], file_scheme="hive", partition_on=["flag"])
    pf = ParquetFile(fn)
    want = sorted(df.x[df.flag])
    try:
        got = sorted(pf.to_pandas(filters=[("flag", "in", [True])]).x)
        if got != want:
            problems.append("bool partition 'in' [True]: got %s expected %s" % (got, want))
    except Exception as e:
        problems.append("bool partition, ('flag','in',[True]) raised %r" % (e,))

    # ---- datetime partition ---------------------------------------------
    fn = os.path.join(d, "by_day")
    write(fn, df[["x", "day"]], file_scheme="hive", partition_on=["day"])
    pf = ParquetFile(fn)
    want = sorted(df.x[df.day == pd.Timestamp("2020-01-02")])
    try:
        got = sorted(pf.to_pandas(filters=[("day", "in", [pd.Timestamp("2020-01-02")])]).x)
        if got != want:
            problems.append("datetime partition 'in': got %s expected %s" % (got, want))
    except Exception as e:
        problems.append("datetime partition, ('day','in',[Timestamp]) raised %r" % (e,))

if problems:
    print("FAIL")
    for p in problems:
        print("  -", p)
    sys.exit(1)
print("OK")
