"""C05 (and C04): timestamp columns written with times='int96'.

write(..., times='int96') is a documented option.  The writer stores min/max statistics
for the INT96 chunk (stats=True or the default 'auto'), ParquetFile.statistics decodes
them to datetimes, but filter_out_stats() does not decode them (it only converts when a
converted/logical type is present), so the user's Timestamp is compared with a raw
12-byte numpy.bytes_ value and every filter on the column raises TypeError.
(Parquet defines no sort order for INT96, so C04 says such a chunk should not carry
min/max in the first place.)
"""
import os
import sys
import tempfile

import numpy as np
import pandas as pd

from fastparquet import ParquetFile, write

problems = []
with tempfile.TemporaryDirectory() as d:
    df = pd.DataFrame({
        "t": pd.to_datetime(["2020-01-01", "2020-01-02", "2021-01-01", "2022-03-04"]),
        "x": np.arange(4),
    })
    fn = os.path.join(d, "i96.parq")
    write(fn, df, times="int96", row_group_offsets=2)      # default stats='auto'
    pf = ParquetFile(fn)
    assert pf.to_pandas().t.tolist() == df.t.tolist()       # data round-trips fine

    md = pf.row_groups[0].columns[0].meta_data
    assert md.type == 3, "expected INT96 physical type"
    has_minmax = md.statistics is not None and (md.statistics.max is not None or md.statistics.min is not None)

    val = pd.Timestamp("2020-06-01")
    want = list(df.x[df.t > val])                             # [2, 3]
    for const in (val, np.datetime64("2020-06-01")):
        try:
            got = list(pf.to_pandas(filters=[("t", ">", const)]).x)
            if not set(want) <= set(got):
                problems.append("filter ('t','>',%r) lost rows: got %s" % (const, got))
        except Exception as e:
            problems.append("filters=[('t','>',%r)] raised %r" % (const, e))
    try:
        got = list(pf.to_pandas(filters=[("t", "==", pd.Timestamp("2021-01-01"))], row_filter=True).x)
        if got != [2]:
            problems.append("row_filter '==' got %s expected [2]" % got)
    except Exception as e:
        problems.append("filters=[('t','==',Timestamp)], row_filter=True raised %r" % (e,))
    note = None
    if has_minmax:
        # not counted as the failure (either dropping these stats or decoding them fixes the filter)
        note = ("note: INT96 chunk (no defined Parquet sort order) carries min/max statistics: min=%r max=%r"
                % (md.statistics.min, md.statistics.max))

if problems:
    print("FAIL")
    for p in problems:
        print("  -", p)
    if note:
        print("  ", note)
    sys.exit(1)
print("OK")
