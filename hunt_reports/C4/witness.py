"""C05/C13: a filter on a column whose name contains '.' raises KeyError.

'a.b' is a legal (flat) column name: it is written, listed in ParquetFile.columns,
has statistics and reads back.  filter_out_stats() however looks the schema element up
with the dot-joined *string* name, which SchemaHelper.schema_element() splits on '.',
so the lookup walks into a non-existent group 'a'.
"""
import os
import sys
import tempfile

import numpy as np
import pandas as pd

from fastparquet import ParquetFile, write

problems = []
with tempfile.TemporaryDirectory() as d:
    df = pd.DataFrame({"a.b": np.arange(10), "x": np.arange(10) * 2})
    fn = os.path.join(d, "dot.parq")
    write(fn, df, row_group_offsets=5)
    pf = ParquetFile(fn)
    assert pf.columns == ["a.b", "x"]
    assert pf.to_pandas()["a.b"].tolist() == list(range(10))
    assert [int(v) for v in pf.statistics["max"]["a.b"]] == [4, 9]

    want = [7, 8, 9]
    for rf in (False, True):
        try:
            got = pf.to_pandas(filters=[("a.b", ">", 6)], row_filter=rf)["a.b"].tolist()
            if rf and got != want:
                problems.append("row_filter=True: got %s expected %s" % (got, want))
            if not rf and not set(want) <= set(got):
                problems.append("row-group filter lost rows: got %s" % got)
        except Exception as e:
            problems.append("to_pandas(filters=[('a.b','>',6)], row_filter=%s) raised %r" % (rf, e))
    try:
        c = pf.count(filters=[("a.b", ">", 6)], row_filter=True)
        if c != 3:
            problems.append("count = %s expected 3" % c)
    except Exception as e:
        problems.append("count(filters=[('a.b','>',6)], row_filter=True) raised %r" % (e,))

if problems:
    print("FAIL")
    for p in problems:
        print("  -", p)
    sys.exit(1)
print("OK")
