"""C17/C06: categorical column with integer (or boolean) labels and missing values,
read with a `categories` argument that does not name it (list, dict or []).

Metadata says the column is plain int64 (pf._dtypes(categories) / the dtype the
read allocates), but the data has nulls: the full read and every partial read
raise TypeError instead of returning a nullable/float column.
"""
import os
import sys
import tempfile
import warnings

import numpy as np
import pandas as pd

warnings.simplefilter("ignore")
from fastparquet import ParquetFile, write


def main():
    d = tempfile.mkdtemp()
    fn = os.path.join(d, "catint.parq")
    df = pd.DataFrame({
        "ci": pd.Categorical([10, None, 30, 10, 20, None]),
        "cs": pd.Categorical(["x", "y", None, "x", "y", "x"]),
        "v": np.arange(6),
    })
    write(fn, df, row_group_offsets=[0, 3])
    pf = ParquetFile(fn)

    want = [10, None, 30, 10, 20, None]
    problems = []
    for cats in ([], ["cs"], {"cs": 2}):
        reported = pf._dtypes(cats)["ci"]
        for what, read in (
                ("to_pandas", lambda: pf.to_pandas(categories=cats)),
                ("pf[0].to_pandas", lambda: pf[0].to_pandas(categories=cats)),
                ("iter_row_groups", lambda: pd.concat(list(pf.iter_row_groups(categories=cats)))),
                ("head(2)", lambda: pf.head(2, categories=cats))):
            try:
                out = read()
            except Exception as e:  # noqa
                problems.append("categories=%r: dtypes reports %r for 'ci' but %s raises %s: %s"
                                % (cats, reported, what, type(e).__name__, str(e)[:80]))
                continue
            col = out["ci"]
            if pd.api.types.pandas_dtype(reported) != col.dtype:
                problems.append("categories=%r %s: reported %r, data %r"
                                % (cats, what, reported, col.dtype))
            vals = [None if pd.isna(x) else int(x) for x in col]
            if what == "to_pandas" and vals != want:
                problems.append("categories=%r: values %r != %r" % (cats, vals, want))
    if problems:
        print("FAIL")
        for p in problems:
            print("  " + p)
        return 1
    print("OK")
    return 0


if __name__ == "__main__":
    sys.exit(main())
