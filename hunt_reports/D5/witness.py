"""C20: copy.copy(pf) (a derived handle) disturbs the handle it came from.

The copy shares the parent's schema-element objects and rebuilds their tree in
place.  Deterministic symptom: after copy.copy(pf) the parent's schema root has
a *different* children mapping object than before (it was emptied and refilled
under the parent's feet).  Concurrent symptom: a thread doing pf.to_pandas()
while another thread runs copy.copy(pf) gets KeyError / TypeError or columns
silently filled with NaN, although each call alone works.
"""
import collections
import copy
import os
import sys
import tempfile
import threading
import warnings

import numpy as np
import pandas as pd

warnings.simplefilter("ignore")
from fastparquet import ParquetFile, write


def main():
    d = tempfile.mkdtemp()
    fn = os.path.join(d, "wide.parq")
    n = 20
    df = pd.DataFrame({"c%02d" % i: (np.arange(n) + i) * (1.5 if i % 2 else 1)
                       for i in range(40)})
    write(fn, df, row_group_offsets=[0, 10])
    pf = ParquetFile(fn)
    expected = pf.to_pandas()

    problems = []

    # 1. sequential, deterministic: deriving a copy must leave the parent untouched
    before = pf.schema.root["children"]
    before_id = id(before)
    dup = copy.copy(pf)
    after = pf.schema.root["children"]
    if id(after) != before_id:
        problems.append("copy.copy(pf) replaced the parent's schema tree in place "
                        "(root['children'] is a new object; shared with the copy: %s)"
                        % (after is dup.schema.root["children"]))
    if not dup.to_pandas().equals(expected) or not pf.to_pandas().equals(expected):
        problems.append("sequential read after copy differs")

    # 2. concurrent: readers on the shared handle while another thread copies it
    old = sys.getswitchinterval()
    sys.setswitchinterval(1e-6)
    outcome = collections.Counter()
    stop = threading.Event()
    start = threading.Barrier(3)

    def reader():
        start.wait()
        for _ in range(60):
            try:
                got = pf.to_pandas()
                if got.equals(expected):
                    outcome["ok"] += 1
                else:
                    bad = [c for c in expected.columns if not got[c].equals(expected[c])]
                    outcome["wrong values in %d column(s), e.g. %s -> %r"
                            % (len(bad), bad[0], got[bad[0]].tolist()[:3])] += 1
            except Exception as e:  # noqa
                outcome["%s" % type(e).__name__] += 1

    def copier():
        start.wait()
        while not stop.is_set():
            copy.copy(pf)

    readers = [threading.Thread(target=reader) for _ in range(2)]
    cp = threading.Thread(target=copier)
    for t in readers + [cp]:
        t.start()
    for t in readers:
        t.join()
    stop.set()
    cp.join()
    sys.setswitchinterval(old)
    failures = {k: v for k, v in outcome.items() if k != "ok"}
    if failures:
        problems.append("reads concurrent with copy.copy(pf): %d ok, failures: %s"
                        % (outcome["ok"], dict(sorted(failures.items()))))

    if problems:
        print("FAIL")
        for p in problems:
            print("  " + p)
        return 1
    print("OK")
    return 0


if __name__ == "__main__":
    sys.exit(main())
