"""C17 (multi-step history) / C20: a read with a `categories` argument rewrites what
the handle reports from metadata.

pf.dtypes is correct on a fresh handle.  After one call of
pf.to_pandas(categories=[]) (from this or any other thread using the handle)
pf.dtypes permanently reports the dtypes of *that* call, so it no longer matches
what the default pf.to_pandas() returns.  (head / iter_row_groups go through a
sliced handle and leave the parent alone; they are checked too.)
"""
import os
import sys
import tempfile
import warnings

import numpy as np
import pandas as pd

warnings.simplefilter("ignore")
from fastparquet import ParquetFile, write


def as_str(dt):
    return "category" if str(dt) == "category" else str(pd.api.types.pandas_dtype(dt))


def main():
    d = tempfile.mkdtemp()
    fn = os.path.join(d, "cat.parq")
    df = pd.DataFrame({"cat": pd.Categorical(list("xyzxyz")), "v": np.arange(6)})
    write(fn, df, row_group_offsets=[0, 3])

    problems = []
    fresh = ParquetFile(fn)
    baseline = {k: as_str(v) for k, v in fresh.dtypes.items()}

    for label, op in [
            ("to_pandas(categories=[])", lambda pf: pf.to_pandas(categories=[])),
            ("head(2, categories=[])", lambda pf: pf.head(2, categories=[])),
            ("list(iter_row_groups(categories=[]))", lambda pf: list(pf.iter_row_groups(categories=[]))),
    ]:
        pf = ParquetFile(fn)
        op(pf)                                  # a read-only operation
        reported = {k: as_str(v) for k, v in pf.dtypes.items()}
        data = pf.to_pandas()                   # default options
        actual = {c: as_str(data[c].dtype) for c in data.columns}
        if reported != baseline:
            problems.append("after %s: pf.dtypes changed from %r to %r"
                            % (label, baseline, reported))
        if reported != actual:
            problems.append("after %s: pf.dtypes=%r but pf.to_pandas() gives %r"
                            % (label, reported, actual))
    if problems:
        print("FAIL")
        for p in problems:
            print("  " + p)
        return 1
    print("OK")
    return 0


if __name__ == "__main__":
    sys.exit(main())
