"""C17 (foreign file, no pandas metadata): a struct column placed BEFORE a nullable
integer column.

Schema (hand-made from the Parquet spec, created_by parquet-mr):
    required group s { required int64 a; required double b; }
    optional int32 x;      <- has nulls, statistics say null_count=2
    required int32 y;
ParquetFile.dtypes reports plain int32 for x (and a needless Int64 for s.a):
the null statistics are looked up in the wrong column chunk.  The full read
then raises TypeError because x was allocated as a numpy int32 array.
"""
import os
import struct
import sys
import tempfile
import warnings

import numpy as np
import pandas as pd

warnings.simplefilter("ignore")
from fastparquet import ParquetFile, parquet_thrift, write
from fastparquet.cencoding import ThriftObject


def make_foreign(flat, nested):
    """Rewrite the footer of a flat fastparquet file: columns s_a, s_b become the
    members a, b of a required group s; pandas metadata dropped; foreign creator."""
    fmd = ParquetFile(flat).fmd
    with open(flat, "rb") as f:
        data = f.read()
    head = struct.unpack("<I", data[-8:-4])[0]
    body = data[:-(head + 8)]
    root, sa, sb, x, y = fmd.schema
    grp = ThriftObject.from_fields(
        "SchemaElement", name="s", num_children=2,
        repetition_type=parquet_thrift.FieldRepetitionType.REQUIRED, i32=True)
    sa.name, sb.name = "a", "b"
    root.num_children = 3
    fmd.schema = [root, grp, sa, sb, x, y]
    for rg in fmd.row_groups:
        cols = rg.columns
        cols[0].meta_data[3] = ["s", "a"]      # path_in_schema
        cols[1].meta_data[3] = ["s", "b"]
        for c in cols:
            c.file_path = None
    fmd.key_value_metadata = []
    fmd.created_by = b"parquet-mr version 1.12.0 (build foreign)"
    foot = bytes(fmd.to_bytes())
    with open(nested, "wb") as f:
        f.write(body + foot + struct.pack("<I", len(foot)) + b"PAR1")


def main():
    d = tempfile.mkdtemp()
    flat, nested = os.path.join(d, "flat.parq"), os.path.join(d, "nested.parq")
    n = 6
    df = pd.DataFrame({
        "s_a": np.arange(n, dtype="int64"),
        "s_b": np.arange(n) * 1.5,
        "x": pd.array([1, None, 3, None, 5, 6], dtype="Int32"),
        "y": np.arange(n, dtype="int32"),
    })
    write(flat, df, has_nulls=["x"], stats=True)
    make_foreign(flat, nested)

    problems = []
    for pandas_nulls in (True,):
        pf = ParquetFile(nested, pandas_nulls=pandas_nulls)
        if sorted(pf.columns) != ["s.a", "s.b", "x", "y"]:
            problems.append("columns %r" % (pf.columns,))
            continue
        reported = dict(pf.dtypes)
        try:
            out = pf.to_pandas()
        except Exception as e:  # noqa
            problems.append(
                "pandas_nulls=%s: dtypes reports x=%r, s.a=%r; to_pandas() raises %s: %s"
                % (pandas_nulls, reported["x"], reported["s.a"], type(e).__name__, str(e)[:60]))
            continue
        for c in out.columns:
            try:
                same = pd.api.types.pandas_dtype(reported[c]) == out[c].dtype
            except TypeError:
                same = False
            if not same:
                problems.append("pandas_nulls=%s: dtypes[%r]=%r but data dtype %r"
                                % (pandas_nulls, c, reported[c], out[c].dtype))
        vals = [None if pd.isna(v) else int(v) for v in out["x"]]
        if vals != [1, None, 3, None, 5, 6]:
            problems.append("x values %r" % (vals,))
        if out["s.a"].tolist() != list(range(n)):
            problems.append("s.a values %r" % (out["s.a"].tolist(),))
    if problems:
        print("FAIL")
        for p in problems:
            print("  " + p)
        return 1
    print("OK")
    return 0


if __name__ == "__main__":
    sys.exit(main())
