"""C09: append='overwrite' must replace exactly the partitions present in the new
data.  With a datetime partition column the old partition is NOT replaced: its
rows survive next to the new ones.  (Also: an empty new frame raises TypeError
instead of being a no-op.)"""
import os, sys, tempfile
import numpy as np, pandas as pd
from fastparquet import write, ParquetFile

problems = []
d = tempfile.mkdtemp()
fn = os.path.join(d, "ds")
days = pd.to_datetime(["2020-01-01", "2020-01-01", "2020-01-02"])
old = pd.DataFrame({"id": [0, 1, 2], "day": days})
write(fn, old, file_scheme="hive", partition_on=["day"])

new = pd.DataFrame({"id": [10], "day": pd.to_datetime(["2020-01-01"])})
write(fn, new, file_scheme="hive", partition_on=["day"], append="overwrite")

got = sorted(ParquetFile(fn).to_pandas()["id"].tolist())
expected = [2, 10]          # partition 2020-01-01 replaced, 2020-01-02 untouched
if got != expected:
    problems.append("datetime partition: ids after overwrite %s, model predicts %s"
                    % (got, expected))

# control: the same history with an integer partition column follows the model
fn2 = os.path.join(d, "ds_int")
write(fn2, old.assign(day=[1, 1, 2]), file_scheme="hive", partition_on=["day"])
write(fn2, new.assign(day=[1]), file_scheme="hive", partition_on=["day"],
      append="overwrite")
got2 = sorted(ParquetFile(fn2).to_pandas()["id"].tolist())
if got2 != expected:
    problems.append("control (int partition) unexpectedly differs: %s" % got2)

# secondary symptom of the same statement: zero-row frame
fn3 = os.path.join(d, "ds_empty")
write(fn3, old.assign(day=[1, 1, 2]), file_scheme="hive", partition_on=["day"])
try:
    write(fn3, new.assign(day=[1]).iloc[:0], file_scheme="hive",
          partition_on=["day"], append="overwrite")
    got3 = sorted(ParquetFile(fn3).to_pandas()["id"].tolist())
    if got3 != [0, 1, 2]:
        problems.append("zero-row overwrite changed content: %s" % got3)
except Exception as e:
    problems.append("zero-row overwrite raised %s: %s" % (type(e).__name__, str(e)[:80]))

if problems:
    print("FAIL")
    for p in problems:
        print("  -", p)
    sys.exit(1)
print("OK")
