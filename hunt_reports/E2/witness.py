"""C07: append of a categorical batch whose category set is a superset (same
leading order) of the stored one.  The pandas metadata 'num_categories' is not
raised by the append, so a fresh open allocates int8 codes for 2 categories and
the read fails - for a single file and for a hive dataset alike."""
import os, sys, tempfile
import numpy as np, pandas as pd
from fastparquet import write, ParquetFile

first_cats = ["a", "b"]
more_cats = first_cats + ["k%03d" % i for i in range(200)]   # 202 categories > int8
df1 = pd.DataFrame({"c": pd.Categorical(["a", "b", "a"], categories=first_cats),
                    "x": [1, 2, 3]})
vals2 = ["a", "k000", "k199", "b"]
df2 = pd.DataFrame({"c": pd.Categorical(vals2, categories=more_cats),
                    "x": [4, 5, 6, 7]})
expected = ["a", "b", "a"] + vals2

problems = []
for scheme in ("simple", "hive"):
    d = tempfile.mkdtemp()
    fn = os.path.join(d, "ds")
    write(fn, df1, file_scheme=scheme)
    write(fn, df2, file_scheme=scheme, append=True)
    pf = ParquetFile(fn)
    meta = [c["metadata"] for c in pf.pandas_metadata["columns"] if c["name"] == "c"][0]
    try:
        out = pf.to_pandas()
        got = out["c"].astype(str).tolist()
        if got != expected or out["x"].tolist() != [1, 2, 3, 4, 5, 6, 7]:
            problems.append("%s: wrong values %s" % (scheme, got))
    except Exception as e:
        problems.append("%s: read after append raised %s: %s (num_categories in metadata: %s)"
                        % (scheme, type(e).__name__, e, meta["num_categories"]))

if problems:
    print("FAIL")
    for p in problems:
        print("  -", p)
    sys.exit(1)
print("OK")
