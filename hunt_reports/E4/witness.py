"""C09: part-file renumbering needs ParquetFile.fs, which only one constructor
branch sets.  When the dataset is opened with a caller-supplied open function
(as write(..., open_with=f) does for append='overwrite') or through the path of
its _metadata file, removing row groups with renumbering deletes the data files,
then dies with AttributeError before the summary metadata is rewritten: the
directory and _metadata disagree and the dataset can no longer be read.
Part numbers are unique across the dataset here, so no rename collision is involved."""
import os, sys, tempfile
import numpy as np, pandas as pd
from fastparquet import write, ParquetFile


def my_open(path, mode="rb"):
    return open(path, mode)


def listing(fn):
    return sorted(os.path.relpath(os.path.join(r, f), fn)
                  for r, _, fs in os.walk(fn) for f in fs)


def agree(fn):
    """summary metadata and directory agree; returns list of problems"""
    out = []
    pf = ParquetFile(fn)
    ref = {rg.columns[0].file_path for rg in pf.row_groups}
    disk = {p for p in listing(fn) if p.endswith(".parquet") or p.endswith(".tmp")}
    if ref - disk:
        out.append("referenced but missing: %s" % sorted(ref - disk))
    if disk - ref:
        out.append("unreferenced on disk: %s" % sorted(disk - ref))
    return out


problems = []

# --- history 1: write, append='overwrite', both through a plain open function
d = tempfile.mkdtemp(); fn = os.path.join(d, "ds")
a = pd.DataFrame({"id": np.arange(6), "p": [0, 0, 1, 1, 2, 2]})
write(fn, a, file_scheme="hive", partition_on=["p"], row_group_offsets=[0, 2, 4],
      open_with=my_open)          # p=0/part.0, p=1/part.1, p=2/part.2
b = pd.DataFrame({"id": [10, 11], "p": [0, 0]})
try:
    write(fn, b, file_scheme="hive", partition_on=["p"], append="overwrite",
          open_with=my_open)
except Exception as e:
    problems.append("overwrite with open_with=<function> raised %s: %s"
                    % (type(e).__name__, e))
try:
    got = sorted(ParquetFile(fn).to_pandas()["id"].tolist())
    if got != [2, 3, 4, 5, 10, 11]:
        problems.append("content after overwrite %s, model predicts [2, 3, 4, 5, 10, 11]" % got)
except Exception as e:
    problems.append("dataset unreadable after overwrite: %s: %s" % (type(e).__name__, e))
problems += ["after overwrite: " + p for p in agree(fn)]

# --- history 2: unpartitioned dataset, re-opened via its _metadata file,
#     remove first row group with renumbering
d = tempfile.mkdtemp(); fn = os.path.join(d, "ds")
write(fn, pd.DataFrame({"id": np.arange(6)}), file_scheme="hive", row_group_offsets=2)
pf = ParquetFile(os.path.join(fn, "_metadata"))
try:
    pf.remove_row_groups(pf.row_groups[0], sort_pnames=True)
except Exception as e:
    problems.append("remove_row_groups(sort_pnames=True) on ParquetFile(<dir>/_metadata) "
                    "raised %s: %s" % (type(e).__name__, e))
try:
    got = sorted(ParquetFile(fn).to_pandas()["id"].tolist())
    if got != [2, 3, 4, 5]:
        problems.append("content after removal %s, model predicts [2, 3, 4, 5]" % got)
except Exception as e:
    problems.append("dataset unreadable after removal: %s: %s" % (type(e).__name__, e))
problems += ["after removal: " + p for p in agree(fn)]

if problems:
    print("FAIL")
    for p in problems:
        print("  -", p)
    sys.exit(1)
print("OK")
