"""C07: the documented per-column codec form {"col": {"type": ..., "args": ...}}
(also under "_default") makes every write/append of a frame with a categorical
column fail with AttributeError - the dictionary page path calls .upper() on the
dict.  The same spec works for non-categorical columns."""
import os, sys, tempfile
import numpy as np, pandas as pd
from fastparquet import write, ParquetFile

df = pd.DataFrame({"c": pd.Categorical(["u", "v", "u"]), "x": [1, 2, 3]})
specs = [{"_default": {"type": "GZIP", "args": None}},
         {"c": {"type": "ZSTD", "args": {"level": 3}}, "x": None}]
problems = []
for scheme in ("simple", "hive"):
    for spec in specs:
        d = tempfile.mkdtemp(); fn = os.path.join(d, "ds")
        write(fn, df, file_scheme=scheme)
        try:
            write(fn, df, file_scheme=scheme, append=True, compression=spec)
        except Exception as e:
            problems.append("%s append with compression=%r raised %s: %s"
                            % (scheme, spec, type(e).__name__, e))
            continue
        out = ParquetFile(fn).to_pandas()
        if out["c"].astype(str).tolist() != ["u", "v", "u"] * 2 or out["x"].tolist() != [1, 2, 3] * 2:
            problems.append("%s %r: wrong content" % (scheme, spec))

# control: same codec spec, no categorical column -> fine
d = tempfile.mkdtemp(); fn = os.path.join(d, "plain.parq")
write(fn, df[["x"]]); write(fn, df[["x"]], append=True, compression=specs[0])
if ParquetFile(fn).to_pandas()["x"].tolist() != [1, 2, 3] * 2:
    problems.append("control failed")

if problems:
    print("FAIL")
    for p in problems:
        print("  -", p)
    sys.exit(1)
print("OK")
