"""C09: 'write' is one of the operations of a dataset history.  A second plain
write() into the directory of an existing multi-file dataset rewrites _metadata
but leaves the previous part files behind: unreferenced part files remain, and
anything that lists the directory instead of _metadata sees the old rows."""
import os, sys, tempfile
import numpy as np, pandas as pd
from fastparquet import write, ParquetFile


def parts(fn):
    return sorted(os.path.relpath(os.path.join(r, f), fn)
                  for r, _, fs in os.walk(fn) for f in fs if f.endswith(".parquet"))


problems = []
for pcols in ([], ["p"]):
    d = tempfile.mkdtemp(); fn = os.path.join(d, "ds")
    a = pd.DataFrame({"id": np.arange(6), "p": [0, 1, 2, 0, 1, 2]})
    write(fn, a, file_scheme="hive", partition_on=pcols, row_group_offsets=2)
    b = pd.DataFrame({"id": [10, 11], "p": [0, 0]})
    write(fn, b, file_scheme="hive", partition_on=pcols)          # fresh write, same directory
    pf = ParquetFile(fn)
    ref = {rg.columns[0].file_path for rg in pf.row_groups}
    stray = [p for p in parts(fn) if p not in ref]
    if sorted(pf.to_pandas()["id"].tolist()) != [10, 11]:
        problems.append("partition_on=%s: content via _metadata is wrong" % pcols)
    if stray:
        problems.append("partition_on=%s: unreferenced part files left behind: %s" % (pcols, stray))
    if not pcols:
        seen = sorted(ParquetFile(fn + "/*.parquet").to_pandas()["id"].tolist())
        if seen != [10, 11]:
            problems.append("reading the directory's part files gives ids %s (old rows resurface)" % seen)

if problems:
    print("FAIL")
    for p in problems:
        print("  -", p)
    sys.exit(1)
print("OK")
