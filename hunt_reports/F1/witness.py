"""C14: categorical columns of files with different dictionaries get wrong labels
when the files are opened together (list / directory / glob / merge)."""
import os, shutil, sys, tempfile
import pandas as pd
from fastparquet import write, ParquetFile
from fastparquet.writer import merge

tmp = tempfile.mkdtemp()
try:
    a = pd.DataFrame({'c': pd.Categorical(['x', 'y', 'x']), 'n': [1, 2, 3]})
    b = pd.DataFrame({'c': pd.Categorical(['z', 'y', 'z', 'w']), 'n': [4, 5, 6, 7]})
    fa, fb = os.path.join(tmp, 'a.parquet'), os.path.join(tmp, 'b.parquet')
    write(fa, a)
    write(fb, b)
    # each file alone is read correctly
    assert ParquetFile(fa).to_pandas().c.tolist() == ['x', 'y', 'x']
    assert ParquetFile(fb).to_pandas().c.tolist() == ['z', 'y', 'z', 'w']
    expected = ['x', 'y', 'x', 'z', 'y', 'z', 'w']

    bad = []
    openers = [
        ('list', lambda: ParquetFile([fa, fb])),
        ('directory', lambda: ParquetFile(tmp)),
        ('glob', lambda: ParquetFile(os.path.join(tmp, '*.parquet'))),
        ('merge', lambda: merge([fa, fb])),
    ]
    for name, opener in openers:
        pf = opener()
        out = pf.to_pandas()
        got = [str(v) for v in out.c.tolist()]
        if got != expected or out.n.tolist() != [1, 2, 3, 4, 5, 6, 7]:
            bad.append((name, got))
    if bad:
        print('FAIL: categorical labels differ from the concatenation of the files')
        print('  expected:', expected)
        for name, got in bad:
            print('  via %-9s:' % name, got)
        sys.exit(1)
    print('OK')
finally:
    shutil.rmtree(tmp, ignore_errors=True)
