"""C08: a text partition value containing a backslash (a legal single path
segment on POSIX, no '/' and no '=') is turned into two directory levels by the
writer; on read the partition column disappears (hive) or is split over two
positional columns with a wrong value (drill)."""
import os, shutil, sys, tempfile
import numpy as np
import pandas as pd
from fastparquet import write, ParquetFile

problems = []
for scheme in ['hive', 'drill']:
    tmp = tempfile.mkdtemp()
    try:
        df = pd.DataFrame({'v': np.arange(6),
                           'k': ['a\\b', 'c', 'a\\b', 'c', 'd', 'd']})
        write(tmp, df, file_scheme=scheme, partition_on=['k'])
        dirs = sorted(os.path.relpath(os.path.join(r, d), tmp)
                      for r, ds, _ in os.walk(tmp) for d in ds)
        pf = ParquetFile(tmp)
        out = pf.to_pandas()
        col = 'k' if scheme == 'hive' else 'dir0'
        expected = sorted(zip(df.v.tolist(), df.k.tolist()))
        if col not in out.columns or len(out.columns) != 2:
            problems.append('%s: columns read back = %s (file_scheme=%r), directories written = %s'
                            % (scheme, list(out.columns), pf.file_scheme, dirs))
            continue
        got = sorted(zip(out.v.tolist(), [str(x) for x in out[col].tolist()]))
        if got != expected:
            problems.append('%s: rows read back = %s, expected %s' % (scheme, got, expected))
    finally:
        shutil.rmtree(tmp, ignore_errors=True)

if problems:
    print('FAIL: partition value "a\\b" is not preserved')
    for p in problems:
        print('  ' + p)
    sys.exit(1)
print('OK')
