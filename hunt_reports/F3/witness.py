"""C14: opening a list of three or more single files given as relative paths
raises KeyError (two files, or the same files as absolute paths, work)."""
import os, shutil, sys, tempfile
import numpy as np
import pandas as pd
from fastparquet import write, ParquetFile

tmp = tempfile.mkdtemp()
cwd = os.getcwd()
try:
    os.chdir(tmp)
    os.mkdir('data')
    fns, expected = [], []
    for i in range(3):
        df = pd.DataFrame({'a': np.arange(3) + 10 * i})
        fn = 'data/f%d.parquet' % i
        write(fn, df)
        fns.append(fn)
        expected += df.a.tolist()

    # control: two relative paths and three absolute paths are fine
    assert ParquetFile(fns[:2]).to_pandas().a.tolist() == expected[:6]
    assert ParquetFile([os.path.abspath(f) for f in fns]).to_pandas().a.tolist() == expected

    try:
        pf = ParquetFile(fns)
        got = pf.to_pandas().a.tolist()
    except Exception as e:
        print('FAIL: ParquetFile(%r) raised %s: %s' % (fns, type(e).__name__, e))
        sys.exit(1)
    if got != expected or pf.count() != len(expected):
        print('FAIL: wrong rows', got)
        sys.exit(1)
    print('OK')
finally:
    os.chdir(cwd)
    shutil.rmtree(tmp, ignore_errors=True)
