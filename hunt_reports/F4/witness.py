"""C10: metadata read from another writer cannot be re-serialised when an
*optional* IDL field is absent: FileMetaData.key_value_metadata (field 5,
optional) missing, or a KeyValue whose optional `value` (field 2) is missing.
merge(), append and update_file_custom_metadata() raise TypeError.

The foreign footers are produced with an independent, spec-based Thrift
compact-protocol codec contained in this script (no fastparquet code)."""
import os, shutil, struct, sys, tempfile
import numpy as np
import pandas as pd
from fastparquet import write, ParquetFile
from fastparquet.writer import merge, update_file_custom_metadata


# ---------- independent compact protocol codec ----------
def rvarint(b, p):
    r = s = 0
    while True:
        x = b[p]; p += 1
        r |= (x & 0x7f) << s
        if not x & 0x80:
            return r, p
        s += 7

def unzig(n): return (n >> 1) ^ -(n & 1)
def zig(n, bits=64): return ((n << 1) ^ (n >> (bits - 1))) & ((1 << bits) - 1)

def rval(b, p, t):
    if t in (1, 2): return b[p] == 1, p + 1
    if t == 3: return struct.unpack('b', b[p:p + 1])[0], p + 1
    if t in (4, 5, 6):
        v, p = rvarint(b, p); return unzig(v), p
    if t == 7: return struct.unpack('<d', b[p:p + 8])[0], p + 8
    if t == 8:
        n, p = rvarint(b, p); return bytes(b[p:p + n]), p + n
    if t == 9:
        h = b[p]; p += 1
        n, et = h >> 4, h & 0xf
        if n == 15: n, p = rvarint(b, p)
        out = []
        for _ in range(n):
            v, p = rval(b, p, et); out.append(v)
        return (et, out), p
    if t == 12: return rstruct(b, p)
    raise ValueError(t)

def rstruct(b, p=0):
    out, fid = {}, 0
    while True:
        h = b[p]; p += 1
        if h == 0: return out, p
        d, t = h >> 4, h & 0xf
        if d == 0:
            v, p = rvarint(b, p); fid = unzig(v)
        else:
            fid += d
        if t in (1, 2): out[fid] = (1, t == 1)
        else:
            v, p = rval(b, p, t); out[fid] = (t, v)

def wvarint(n):
    out = bytearray()
    while n > 127:
        out.append((n & 0x7f) | 0x80); n >>= 7
    out.append(n); return bytes(out)

def wval(t, v):
    if t in (1, 2): return bytes([1 if v else 2])
    if t == 3: return struct.pack('b', v)
    if t in (4, 5, 6): return wvarint(zig(v))
    if t == 7: return struct.pack('<d', v)
    if t == 8: return wvarint(len(v)) + v
    if t == 9:
        et, items = v
        n = len(items)
        h = bytes([(n << 4) | et]) if n < 15 else bytes([0xf0 | et]) + wvarint(n)
        return h + b''.join(wval(et, i) for i in items)
    if t == 12: return wstruct(v)

def wstruct(st):
    out, prev = bytearray(), 0
    for fid in sorted(st):
        t, v = st[fid]
        if t in (1, 2): t = 1 if v else 2
        d = fid - prev
        if 0 < d <= 15: out.append((d << 4) | t)
        else: out.append(t); out += wvarint(zig(fid, 16))
        prev = fid
        if t not in (1, 2): out += wval(t, v)
    out.append(0); return bytes(out)
# ---------------------------------------------------------


def make_foreign(path, mode):
    """Rewrite the footer of `path` the way another writer could have."""
    raw = open(path, 'rb').read()
    n = struct.unpack('<I', raw[-8:-4])[0]
    st, p = rstruct(raw[-8 - n:-8])
    assert p == n
    if mode == 'no key_value_metadata':
        st.pop(5)                                   # optional field 5 absent
    else:
        st[5] = (9, (12, [{1: (8, b'writer.note')}]))   # KeyValue without optional value
    st[6] = (8, b'other-writer version 1.0')
    foot = wstruct(st)
    with open(path, 'wb') as f:
        f.write(raw[:-8 - n] + foot + struct.pack('<I', len(foot)) + b'PAR1')


df = pd.DataFrame({'a': np.arange(3), 'b': [1.5, 2.5, 3.5]})
problems = []
for mode in ['no key_value_metadata', 'KeyValue without value']:
    for action in ['merge', 'append', 'update_file_custom_metadata']:
        tmp = tempfile.mkdtemp()
        try:
            f1, f2 = os.path.join(tmp, 'a.parquet'), os.path.join(tmp, 'b.parquet')
            write(f1, df, write_index=False)
            write(f2, df, write_index=False)
            make_foreign(f1, mode)
            make_foreign(f2, mode)
            # the foreign files are perfectly readable
            assert ParquetFile(f1).to_pandas().a.tolist() == [0, 1, 2]
            assert ParquetFile([f1, f2]).to_pandas().a.tolist() == [0, 1, 2, 0, 1, 2]
            try:
                if action == 'merge':
                    out = merge([f1, f2]).to_pandas()
                    assert ParquetFile(tmp).to_pandas().a.tolist() == [0, 1, 2, 0, 1, 2]
                elif action == 'append':
                    write(f1, df, append=True, write_index=False)
                    assert ParquetFile(f1).to_pandas().a.tolist() == [0, 1, 2, 0, 1, 2]
                else:
                    update_file_custom_metadata(f1, {'x': 'y'})
                    pf = ParquetFile(f1)
                    assert pf.key_value_metadata.get('x') == 'y'
                    assert pf.to_pandas().a.tolist() == [0, 1, 2]
            except Exception as e:
                problems.append('%-24s %-28s -> %s: %s' % (mode, action, type(e).__name__, e))
        finally:
            shutil.rmtree(tmp, ignore_errors=True)

if problems:
    print('FAIL: metadata with absent optional fields cannot be re-serialised')
    for p in problems:
        print('  ' + p)
    sys.exit(1)
print('OK')
