"""C14: opening / merging a list of hive sub-datasets given as ParquetFile
instances (documented input of merge) builds row-group paths that contain the
'_metadata' file name, so no data can be read. The same sub-datasets given as
path strings work."""
import os, shutil, sys, tempfile
import numpy as np
import pandas as pd
from fastparquet import write, ParquetFile
from fastparquet.writer import merge

tmp = tempfile.mkdtemp()
try:
    subs, expected = [], []
    for i in range(2):
        df = pd.DataFrame({'n': np.arange(4) + 10 * i, 'k': [0, 1, 0, 1]})
        s = os.path.join(tmp, 'sub%d' % i)
        write(s, df, file_scheme='hive', partition_on=['k'])
        subs.append(s)
        expected += sorted(zip(df.n.tolist(), df.k.tolist()))
    expected = sorted(expected)

    # control: as path strings
    out = ParquetFile(subs).to_pandas()
    assert sorted(zip(out.n.tolist(), out.k.tolist())) == expected

    problems = []
    for name, opener in [('ParquetFile([pf, pf])', lambda: ParquetFile([ParquetFile(s) for s in subs])),
                         ('merge([pf, pf])', lambda: merge([ParquetFile(s) for s in subs]))]:
        try:
            pf = opener()
            paths = [rg.columns[0].file_path for rg in pf.row_groups]
            out = pf.to_pandas()
            got = sorted(zip(out.n.tolist(), [int(x) for x in out.k.tolist()]))
            if got != expected or pf.count() != len(expected):
                problems.append('%s: rows %s' % (name, got))
        except Exception as e:
            problems.append('%s: %s: %s\n      row-group paths: %s' % (name, type(e).__name__, e, paths))
    if problems:
        print('FAIL: hive sub-datasets passed as ParquetFile instances are not concatenated')
        for p in problems:
            print('  ' + p)
        sys.exit(1)
    print('OK')
finally:
    shutil.rmtree(tmp, ignore_errors=True)
