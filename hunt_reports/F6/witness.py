"""C08: a hive dataset partitioned on a time-zone-aware timestamp column, or on a
nullable Float64 column, is written without complaint but can then not even be
opened: ParquetFile() raises TypeError while converting the directory values."""
import os, shutil, sys, tempfile
import numpy as np
import pandas as pd
from fastparquet import write, ParquetFile

ts = pd.to_datetime(['2020-01-01 00:00', '2020-01-02 12:30', '2020-01-01 00:00', '2020-01-02 12:30'])
cases = {
    'datetime64[ns, UTC]': pd.Series(ts).dt.tz_localize('UTC'),
    'datetime64[ns, Europe/Berlin]': pd.Series(ts).dt.tz_localize('Europe/Berlin'),
    'Float64 (nullable float)': pd.Series(pd.array([1.5, 2.5, 1.5, 2.5], dtype='Float64')),
}
problems = []
for name, col in cases.items():
    tmp = tempfile.mkdtemp()
    try:
        df = pd.DataFrame({'v': np.arange(4), 'k': col})
        write(tmp, df, file_scheme='hive', partition_on=['k'])
        try:
            out = ParquetFile(tmp).to_pandas()
        except Exception as e:
            problems.append('%s: %s: %s' % (name, type(e).__name__, e))
            continue
        out = out.sort_values('v')
        if out.v.tolist() != [0, 1, 2, 3]:
            problems.append('%s: rows %s' % (name, out.v.tolist()))
            continue
        got = out.k.astype(out.k.cat.categories.dtype)
        if 'datetime' in name:
            want = [t.tz_convert('UTC') for t in col]
            got = [pd.Timestamp(t) for t in got]
            got = [(t.tz_localize('UTC') if t.tzinfo is None else t.tz_convert('UTC')) for t in got]
            # a naive value must denote the same instant only if it is the UTC wall time
            if got != want:
                problems.append('%s: values %s, expected %s' % (name, got, want))
        else:
            if [float(x) for x in got] != [float(x) for x in col]:
                problems.append('%s: values %s' % (name, list(got)))
    finally:
        shutil.rmtree(tmp, ignore_errors=True)

if problems:
    print('FAIL: partitioned dataset cannot be read back')
    for p in problems:
        print('  ' + p)
    sys.exit(1)
print('OK')
