"""C08: drill scheme, one text partition column whose values mix number-looking
and ordinary text (e.g. 'a' and '1'). Writing succeeds; reading raises
ValueError('1 is not in list') - or not - depending on set iteration order,
i.e. on the string hash seed. The witness runs itself under several fixed
PYTHONHASHSEED values so that the outcome is deterministic."""
import os, subprocess, sys

CHILD = r'''
import shutil, sys, tempfile
import numpy as np, pandas as pd
from fastparquet import write, ParquetFile
tmp = tempfile.mkdtemp()
try:
    df = pd.DataFrame({'v': np.arange(6), 'k': ['a', '1', 'b', '2', 'a', '1']})
    write(tmp, df, file_scheme='drill', partition_on=['k'])
    out = ParquetFile(tmp).to_pandas().sort_values('v')
    got = [str(x) for x in out.dir0.tolist()]
    if out.v.tolist() != list(range(6)) or got != df.k.tolist():
        print('WRONG', got); sys.exit(2)
    print('fine')
except Exception as e:
    print('%s: %s' % (type(e).__name__, e)); sys.exit(3)
finally:
    shutil.rmtree(tmp, ignore_errors=True)
'''

results = {}
for seed in range(6):
    env = dict(os.environ, PYTHONHASHSEED=str(seed))
    r = subprocess.run([sys.executable, '-c', CHILD], env=env, capture_output=True, text=True)
    results[seed] = (r.returncode, (r.stdout.strip().splitlines() or [r.stderr.strip()[-200:]])[-1])

bad = {s: v for s, v in results.items() if v[0] != 0}
if bad:
    print('FAIL: drill dataset with text keys [a, 1, b, 2] cannot be read back')
    for s, (rc, msg) in results.items():
        print('  PYTHONHASHSEED=%d -> %s' % (s, msg))
    sys.exit(1)
print('OK')
