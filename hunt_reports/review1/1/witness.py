"""An all-null object column can no longer be appended to a nullable
timestamp / timedelta column (commit 3817da7).

Before 3817da7 the append stored two nulls (read back as NaT); the new check
in write_column raises before looking whether any non-null value is left.
"""
import os, sys, tempfile
import numpy as np, pandas as pd
from fastparquet import write, ParquetFile

d = tempfile.mkdtemp()
bad = 0
cols = {
    "timestamp[ns]": pd.Series(np.array(["2020-01-01T00:00", "2021-06-01T12:00"], dtype="M8[ns]")),
    "timestamp[us]": pd.Series(np.array(["2020-01-01T00:00", "2021-06-01T12:00"], dtype="M8[us]")),
    "timedelta": pd.Series(np.array([1_000_000_000, 7_200_000_000_000], dtype="m8[ns]")),
    "int64 (control)": pd.Series(np.array([1, 2], dtype="int64")),
}
for title, ser in cols.items():
    for nulls in ([None, None], [pd.NaT, pd.NaT]):
        fn = os.path.join(d, "a.parq")
        write(fn, pd.DataFrame({"c": ser}))          # has_nulls=True: OPTIONAL
        new = pd.DataFrame({"c": pd.Series(nulls, dtype=object)})
        try:
            write(fn, new, append=True)
            out = ParquetFile(fn).to_pandas()["c"]
            ok = len(out) == 4 and out.iloc[2:].isna().all()
            print("%-16s <- %-12r appended, rows 2..3 = %s" % (title, nulls, out.iloc[2:].tolist()))
            bad += not ok
        except ValueError as e:
            print("%-16s <- %-12r REFUSED: %s" % (title, nulls, e))
            bad += 1
print("problem shows" if bad else "no problem")
sys.exit(1 if bad else 0)
