"""converted_type DECIMAL present, but scale/precision given only inside
logicalType DECIMAL: _legacy_annotation returns early (converted_type is
set) and the values are read unscaled.
"""
import os, struct, sys, tempfile
import numpy as np, pandas as pd
from fastparquet import write, ParquetFile, parquet_thrift
from fastparquet.cencoding import ThriftObject
from fastparquet.writer import write_thrift


def patch_footer(fn, patch):
    fmd = ParquetFile(fn).fmd
    patch(fmd)
    with open(fn, "rb+") as f:
        f.seek(-8, 2)
        size = struct.unpack("<I", f.read(4))[0]
        f.seek(-(size + 8), 2)
        n = write_thrift(f, fmd)
        f.write(struct.pack("<I", n) + b"PAR1")
        f.truncate()


d = tempfile.mkdtemp()
res = {}
for mode in ("logicalType only", "converted_type DECIMAL + logicalType, no SchemaElement.scale"):
    fn = os.path.join(d, "a.parq")
    write(fn, pd.DataFrame({"c": np.array([100, 250], "int64")}), has_nulls=False)

    def patch(fmd):
        se = fmd.schema[1]
        se.converted_type = None if mode == "logicalType only" else parquet_thrift.ConvertedType.DECIMAL
        se.scale = se.precision = None
        se[10] = ThriftObject.from_fields("LogicalType", DECIMAL=ThriftObject.from_fields(
            "DecimalType", scale=2, precision=9)).contents
        fmd.key_value_metadata = []
    patch_footer(fn, patch)
    pf = ParquetFile(fn)
    se = pf.schema.schema_element(["c"])
    res[mode] = pf.to_pandas()["c"].tolist()
    print("%-62s scale=%r precision=%r values=%s" % (mode + ":", se.scale, se.precision, res[mode]))
bad = any(v != [1.0, 2.5] for v in res.values())
print("problem shows" if bad else "no problem")
sys.exit(1 if bad else 0)
