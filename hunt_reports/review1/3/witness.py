"""A categorical column whose categories are plain integers is stored raw in a
timestamp / timedelta column, OPTIONAL or REQUIRED; commit 3817da7 explicitly
skips categoricals.
"""
import os, sys, tempfile
import numpy as np, pandas as pd
from fastparquet import write, ParquetFile

d = tempfile.mkdtemp()
targets = {
    "timestamp[ns]": pd.Series(np.array(["2020-01-01T00:00", "2021-06-01T12:00"], dtype="M8[ns]")),
    "timestamp[us]": pd.Series(np.array(["2020-01-01T00:00", "2021-06-01T12:00"], dtype="M8[us]")),
    "timedelta": pd.Series(np.array([1_000_000_000, 7_200_000_000_000], dtype="m8[ns]")),
}
cat = pd.DataFrame({"c": pd.Series([5, 6]).astype("category")})
bad = 0
for title, ser in targets.items():
    for has_nulls in (True, False):
        fn = os.path.join(d, "a.parq")
        write(fn, pd.DataFrame({"c": ser}), has_nulls=has_nulls)
        try:
            write(fn, cat, append=True)
        except ValueError as e:
            print("%-14s has_nulls=%-5r refused: %s" % (title, has_nulls, e))
            continue
        out = ParquetFile(fn).to_pandas()["c"]
        print("%-14s has_nulls=%-5r ACCEPTED; categories 5, 6 read back as %s" % (
            title, has_nulls, out.iloc[2:].tolist()))
        bad += 1
# for comparison: the same integers as int64 and as object
fn = os.path.join(d, "b.parq")
for alt in (pd.Series([5, 6]), pd.Series([5, 6], dtype=object)):
    write(fn, pd.DataFrame({"c": targets["timestamp[ns]"]}))
    try:
        write(fn, pd.DataFrame({"c": alt}), append=True)
        print("control dtype %s: accepted" % alt.dtype)
    except ValueError as e:
        print("control dtype %s: refused: %s" % (alt.dtype, e))
print("problem shows" if bad else "no problem")
sys.exit(1 if bad else 0)
