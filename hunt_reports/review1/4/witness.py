"""Numbers of a numeric dtype (int64 / Int64 / float64) appended to a DECIMAL
column stored as INT32/INT64 are written unscaled, so reading a decimal file
and appending what was read shrinks the values by 10**scale.  3817da7 refuses
this for object columns only; since 4969186 it also happens to files whose
column is annotated through logicalType alone (they used to round-trip).
"""
import os, struct, sys, tempfile
import numpy as np, pandas as pd
from fastparquet import write, ParquetFile, parquet_thrift
from fastparquet.cencoding import ThriftObject
from fastparquet.writer import write_thrift


def patch_footer(fn, patch):
    fmd = ParquetFile(fn).fmd
    patch(fmd)
    with open(fn, "rb+") as f:
        f.seek(-8, 2)
        size = struct.unpack("<I", f.read(4))[0]
        f.seek(-(size + 8), 2)
        n = write_thrift(f, fmd)
        f.write(struct.pack("<I", n) + b"PAR1")
        f.truncate()


def decimal_file(fn, logical_only, has_nulls):
    """INT64 column 'c' holding 1.00 and 2.00 as DECIMAL(9, 2), as another
    writer would store it"""
    write(fn, pd.DataFrame({"c": np.array([100, 200], dtype="int64")}), has_nulls=has_nulls)

    def patch(fmd):
        se = fmd.schema[1]
        lt = ThriftObject.from_fields("LogicalType", DECIMAL=ThriftObject.from_fields(
            "DecimalType", scale=2, precision=9))
        se[10] = lt.contents  # field 10: logicalType
        if logical_only:
            se.converted_type = None
        else:
            se.converted_type = parquet_thrift.ConvertedType.DECIMAL
            se.scale, se.precision = 2, 9
        fmd.key_value_metadata = []
    patch_footer(fn, patch)


d = tempfile.mkdtemp()
bad = 0
for logical_only in (False, True):
    for has_nulls in (True, False):
        fn = os.path.join(d, "a.parq")
        decimal_file(fn, logical_only, has_nulls)
        got = ParquetFile(fn).to_pandas()
        for title, frame in (("what was read (float64)", got),
                             ("int64 [1, 2]", pd.DataFrame({"c": np.array([1, 2], dtype="int64")})),
                             ("Int64 [1, <NA>]", pd.DataFrame({"c": pd.Series([1, None], dtype="Int64")}))):
            decimal_file(fn, logical_only, has_nulls)
            tag = "logicalType%s, has_nulls=%-5r <- %-24s" % (
                " only" if logical_only else "+converted_type", has_nulls, title)
            try:
                write(fn, frame, append=True)
            except ValueError as e:
                print(tag, "refused:", str(e)[:90])
                continue
            out = ParquetFile(fn).to_pandas()["c"]
            given = frame["c"].astype("float64").tolist()
            back = [float("nan") if pd.isna(x) else float(x) for x in out.iloc[2:].tolist()]
            same = all((a == b) or (a != a and b != b) for a, b in zip(given, back))
            print(tag, "appended %s, read back %s" % (given, back), "" if same else " <-- DIFFERENT")
            bad += not same
print("problem shows" if bad else "no problem")
sys.exit(1 if bad else 0)
