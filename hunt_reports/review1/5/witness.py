"""Object values (ints, Decimals, even text or None) appended to a REQUIRED
INT32/INT64 DECIMAL column are written as float64 bytes into the integer
column: garbage on INT64, a short/misaligned page on INT32.  3817da7 refuses
the same input only when the column is OPTIONAL.
"""
import decimal, os, struct, sys, tempfile
import numpy as np, pandas as pd
from fastparquet import write, ParquetFile, parquet_thrift
from fastparquet.writer import write_thrift


def patch_footer(fn, patch):
    fmd = ParquetFile(fn).fmd
    patch(fmd)
    with open(fn, "rb+") as f:
        f.seek(-8, 2)
        size = struct.unpack("<I", f.read(4))[0]
        f.seek(-(size + 8), 2)
        n = write_thrift(f, fmd)
        f.write(struct.pack("<I", n) + b"PAR1")
        f.truncate()


def decimal_file(fn, np_type, has_nulls):
    write(fn, pd.DataFrame({"c": np.array([100, 200], dtype=np_type)}), has_nulls=has_nulls)

    def patch(fmd):
        se = fmd.schema[1]
        se.converted_type = parquet_thrift.ConvertedType.DECIMAL
        se.scale, se.precision = 2, 9
        fmd.key_value_metadata = []
    patch_footer(fn, patch)


d = tempfile.mkdtemp()
bad = 0
values = {
    "ints": [5, 6],
    "Decimals": [decimal.Decimal("5"), decimal.Decimal("6.5")],
    "text": ["5", "6"],
}
for np_type in ("int64", "int32"):
    for has_nulls in (True, False):
        for title, v in values.items():
            fn = os.path.join(d, "a.parq")
            decimal_file(fn, np_type, has_nulls)
            tag = "%s DECIMAL(9,2) has_nulls=%-5r <- object %-8s" % (np_type.upper(), has_nulls, title)
            try:
                write(fn, pd.DataFrame({"c": pd.Series(v, dtype=object)}), append=True)
            except ValueError as e:
                print(tag, "refused:", str(e)[:100])
                continue
            try:
                back = ParquetFile(fn).to_pandas()["c"].tolist()
                print(tag, "ACCEPTED; file now reads", back)
            except Exception as e:
                print(tag, "ACCEPTED; file no longer readable:", type(e).__name__, e)
            bad += 1
print("problem shows" if bad else "no problem")
sys.exit(1 if bad else 0)
