"""times='int96': an object column (plain integers, Timestamps, dates) appended
to an INT96 timestamp column is accepted and the object array's raw memory
(8 bytes of pointer per value instead of 12 bytes of time) is written; a
categorical of integers leaves a row group that cannot be read.  3817da7 only
looks at INT32/INT64 columns.
"""
import datetime, os, sys, tempfile
import numpy as np, pandas as pd
from fastparquet import write, ParquetFile

d = tempfile.mkdtemp()
ser = pd.Series(np.array(["2020-01-01T00:00", "2021-06-01T12:00"], dtype="M8[ns]"))
new = {
    "object ints": pd.Series([5, 6], dtype=object),
    "object Timestamps": pd.Series([pd.Timestamp("2022-01-01"), pd.Timestamp("2022-01-02")], dtype=object),
    "object dates": pd.Series([datetime.date(2022, 1, 1), datetime.date(2022, 1, 2)], dtype=object),
    "categorical ints": pd.Series([5, 6]).astype("category"),
}
bad = 0
for has_nulls in (True, False):
    for title, a in new.items():
        fn = os.path.join(d, "a.parq")
        write(fn, pd.DataFrame({"c": ser}), has_nulls=has_nulls, times="int96")
        tag = "INT96 has_nulls=%-5r <- %-18s" % (has_nulls, title)
        try:
            write(fn, pd.DataFrame({"c": a}), append=True)
        except (ValueError, TypeError) as e:
            print(tag, "refused:", str(e)[:100])
            continue
        try:
            back = ParquetFile(fn).to_pandas()["c"].tolist()[2:]
            wanted = [pd.Timestamp(x) for x in a] if "ints" not in title else None
            if wanted is not None and back == wanted:
                print(tag, "stored correctly", back)
                continue
            print(tag, "ACCEPTED; appended rows read back as", back)
        except Exception as e:
            print(tag, "ACCEPTED; file no longer readable:", type(e).__name__, e)
        bad += 1
print("problem shows" if bad else "no problem")
sys.exit(1 if bad else 0)
