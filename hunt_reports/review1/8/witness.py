"""Since 4969186 a file whose DATE / TIME(MILLIS) / ENUM column is annotated
through logicalType alone can no longer be appended with what was read from
it: the writer has no way to encode datetime64 into DATE, timedelta64[ms]
into TIME_MILLIS or bytes into ENUM and crashes with KeyError / ValueError /
UnboundLocalError.  Before the commit these columns read raw and the same
read-then-append round-tripped.
"""
import os, struct, sys, tempfile
import numpy as np, pandas as pd
from fastparquet import write, ParquetFile, parquet_thrift
from fastparquet.cencoding import ThriftObject
from fastparquet.writer import write_thrift


def patch_footer(fn, patch):
    fmd = ParquetFile(fn).fmd
    patch(fmd)
    with open(fn, "rb+") as f:
        f.seek(-8, 2)
        size = struct.unpack("<I", f.read(4))[0]
        f.seek(-(size + 8), 2)
        n = write_thrift(f, fmd)
        f.write(struct.pack("<I", n) + b"PAR1")
        f.truncate()


def LT(**kw):
    return ThriftObject.from_fields("LogicalType", **kw)


cases = [
    ("DATE", np.array([18000, 18001], "int32"), LT(DATE={})),
    ("TIME(MILLIS)", np.array([1000, 2000], "int32"), LT(TIME=ThriftObject.from_fields(
        "TimeType", isAdjustedToUTC=True, unit=ThriftObject.from_fields("TimeUnit", MILLIS={})))),
    ("ENUM", np.array([b"a", b"b"], "O"), LT(ENUM={})),
]
d = tempfile.mkdtemp()
bad = 0
for title, arr, lt in cases:
    for has_nulls in (True, False):
        fn = os.path.join(d, "a.parq")
        write(fn, pd.DataFrame({"c": arr}), has_nulls=has_nulls, object_encoding="bytes")

        def patch(fmd):
            fmd.schema[1].converted_type = None
            fmd.schema[1][10] = lt.contents
            fmd.key_value_metadata = []
        patch_footer(fn, patch)
        got = ParquetFile(fn).to_pandas()
        tag = "%-13s has_nulls=%-5r read as %-16s" % (title, has_nulls, got["c"].dtype)
        try:
            write(fn, got, append=True)
        except Exception as e:
            print(tag, "append of what was read: %s: %s" % (type(e).__name__, str(e)[:90]))
            bad += 1
            continue
        out = ParquetFile(fn).to_pandas()["c"]
        same = out.iloc[:2].tolist() == out.iloc[2:].tolist()
        print(tag, "append of what was read: ok,", "same values" if same else "DIFFERENT values %s" % out.tolist())
        bad += not same
print("problem shows" if bad else "no problem")
sys.exit(1 if bad else 0)
