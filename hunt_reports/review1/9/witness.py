"""logicalType TIME(NANOS) has no converted_type equivalent, so after 4969186
it is still read as its raw physical type (int64 nanoseconds) while
TIME(MILLIS) and TIME(MICROS) come back as timedelta64; TIMESTAMP(NANOS), in
the same situation, is handled through the logicalType.
"""
import os, struct, sys, tempfile
import numpy as np, pandas as pd
from fastparquet import write, ParquetFile
from fastparquet.cencoding import ThriftObject
from fastparquet.writer import write_thrift


def patch_footer(fn, patch):
    fmd = ParquetFile(fn).fmd
    patch(fmd)
    with open(fn, "rb+") as f:
        f.seek(-8, 2)
        size = struct.unpack("<I", f.read(4))[0]
        f.seek(-(size + 8), 2)
        n = write_thrift(f, fmd)
        f.write(struct.pack("<I", n) + b"PAR1")
        f.truncate()


d = tempfile.mkdtemp()
bad = 0
for unit, np_type, one_second in (("MILLIS", "int32", 1000), ("MICROS", "int64", 10**6), ("NANOS", "int64", 10**9)):
    fn = os.path.join(d, "a.parq")
    write(fn, pd.DataFrame({"c": np.array([one_second, 2 * one_second], np_type)}), has_nulls=False)

    def patch(fmd):
        fmd.schema[1].converted_type = None
        fmd.schema[1][10] = ThriftObject.from_fields("LogicalType", TIME=ThriftObject.from_fields(
            "TimeType", isAdjustedToUTC=True,
            unit=ThriftObject.from_fields("TimeUnit", **{unit: {}}))).contents
        fmd.key_value_metadata = []
    patch_footer(fn, patch)
    pf = ParquetFile(fn)
    out = pf.to_pandas()["c"]
    ok = out.dtype.kind == "m" and out.tolist() == [pd.Timedelta("1s"), pd.Timedelta("2s")]
    print("TIME(%s): dtypes %s, values %s%s" % (unit, dict(pf.dtypes), out.tolist(), "" if ok else "   <-- raw"))
    bad += not ok
print("problem shows" if bad else "no problem")
sys.exit(1 if bad else 0)
