"""file_scheme='hive', partition_on a categorical column whose labels are
numbers: the values come back as text ('10' instead of 10).  The same column
stored as plain int64 comes back as numbers."""
import os
import sys
import tempfile
import warnings

import pandas as pd
from fastparquet import write, ParquetFile

warnings.simplefilter("ignore")
bad = False
with tempfile.TemporaryDirectory() as d:
    for tag, col in (("categorical of int", pd.Categorical([10, 20, 10, 30])),
                     ("categorical of float", pd.Categorical([0.5, 1.5, 0.5, 2.5])),
                     ("plain int64", [10, 20, 10, 30])):
        dn = os.path.join(d, tag.replace(" ", "_"))
        df = pd.DataFrame({"p": col, "x": [1, 2, 3, 4]})
        write(dn, df, file_scheme="hive", partition_on=["p"])
        out = ParquetFile(dn).to_pandas().sort_values("x")
        exp = df["p"].astype(object).tolist()
        got = out["p"].astype(object).tolist()
        print("%-21s: written %r -> read %r" % (tag, exp, got))
        if [repr(v) for v in exp] != [repr(v) for v in got] and exp != got:
            bad = True

print("VIOLATION: numeric category labels of a partition column read as text"
      if bad else "ok")
sys.exit(1 if bad else 0)
