"""Writing a file whose footer is larger than 500000 bytes (here: min/max
statistics of a text column with ~9 kB values over 30 row groups, stats=True)
overruns the fixed serialisation buffer of ThriftObject.to_bytes: the
interpreter is killed by the allocator (heap corruption) or the footer is cut.
The write runs in a child process so that the crash can be observed."""
import os
import subprocess
import sys
import tempfile

child = r'''
import sys, warnings
import pandas as pd
from fastparquet import write, ParquetFile
warnings.simplefilter("ignore")
fn = sys.argv[1]
nrg, width = 30, 9000
df = pd.DataFrame({"s": [("%06d" % i) + "x" * width for i in range(nrg * 2)]})
write(fn, df, row_group_offsets=2, stats=True)
out = ParquetFile(fn).to_pandas()
assert out["s"].tolist() == df["s"].tolist(), "data differ"
print("child: round trip fine")
'''

with tempfile.TemporaryDirectory() as d:
    fn = os.path.join(d, "x.parq")
    script = os.path.join(d, "child.py")
    with open(script, "w") as f:
        f.write(child)
    p = subprocess.run([sys.executable, script, fn], capture_output=True,
                       text=True, env=os.environ.copy())
    print("child return code:", p.returncode)
    print("child stdout:", p.stdout.strip()[-300:])
    print("child stderr:", p.stderr.strip()[-300:])
    bad = p.returncode != 0

print("VIOLATION: write of a footer > 500000 bytes crashed / corrupted"
      if bad else "ok")
sys.exit(1 if bad else 0)
