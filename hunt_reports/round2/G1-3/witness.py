"""The frame returned for a file with a categorical column reports, through
DataFrame.dtypes, the placeholder labels 0..n-1 it was pre-allocated with
instead of the labels that were written (the values themselves carry the
right labels).  Anything driven by df.dtypes gets the wrong categories:
out.astype(out.dtypes) turns the whole column into NaN."""
import os
import sys
import tempfile
import warnings

import pandas as pd
from fastparquet import write, ParquetFile

warnings.simplefilter("ignore")
with tempfile.TemporaryDirectory() as d:
    fn = os.path.join(d, "x.parq")
    df = pd.DataFrame({"x": [0, 1, 2, 3],
                       "c": pd.Categorical(["a", "b", "a", "c"],
                                           categories=["c", "b", "a"],
                                           ordered=True)})
    write(fn, df)
    out = ParquetFile(fn).to_pandas()

    print("written dtype          :", repr(df.dtypes["c"]))
    print("read  out.dtypes['c']  :", repr(out.dtypes["c"]))
    print("read  out['c'].dtype   :", repr(out["c"].dtype))
    again = out.astype(out.dtypes.to_dict())
    print("out.astype(out.dtypes)['c'] :", again["c"].tolist())
    print("df.astype(df.dtypes)['c']   :",
          df.astype(df.dtypes.to_dict())["c"].tolist())
    bad = (out.dtypes["c"] != df.dtypes["c"]
           or again["c"].astype(object).tolist() != df["c"].astype(object).tolist())

print("VIOLATION: dtypes of the returned frame name other category labels"
      if bad else "ok")
sys.exit(1 if bad else 0)
