"""file_scheme='hive', partition_on a timedelta64 column: the dataset is read
back as a 'drill' dataset - the partition column disappears and a column
'dir0' holding the raw directory text 'p=0 days 00:00:01' takes its place."""
import os
import sys
import tempfile
import warnings

import pandas as pd
from fastparquet import write, ParquetFile

warnings.simplefilter("ignore")
with tempfile.TemporaryDirectory() as d:
    dn = os.path.join(d, "ds")
    df = pd.DataFrame({"p": pd.to_timedelta([1, 2, 1, 3], unit="s"),
                       "x": [1, 2, 3, 4]})
    write(dn, df, file_scheme="hive", partition_on=["p"])
    pf = ParquetFile(dn)
    out = pf.to_pandas().sort_values("x").reset_index(drop=True)
    print("directories :", sorted(f for f in os.listdir(dn) if "=" in f))
    print("file_scheme :", pf.file_scheme, " partition keys:", dict(pf.cats))
    print("columns read:", out.columns.tolist())
    print(out)
    bad = ("p" not in out.columns
           or out["p"].astype(object).tolist() != df["p"].astype(object).tolist())

print("VIOLATION: partition column lost / replaced by directory text"
      if bad else "ok")
sys.exit(1 if bad else 0)
