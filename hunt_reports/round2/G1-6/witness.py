"""A frame without rows that has a categorical column: the labels are not
stored anywhere (no row group, hence no dictionary page; the pandas metadata
keeps only their number) and reading returns the labels 0..n-1 instead."""
import os
import sys
import tempfile
import warnings

import pandas as pd
from fastparquet import write, ParquetFile

warnings.simplefilter("ignore")
bad = False
with tempfile.TemporaryDirectory() as d:
    full = pd.DataFrame({"c": pd.Categorical(["a", "b", "a"],
                                             categories=["b", "a", "zz"],
                                             ordered=True),
                         "x": [1, 2, 3]})
    df = full[full["x"] > 10]          # same dtypes, no rows
    for scheme in ("simple", "hive"):
        fn = os.path.join(d, "x_" + scheme)
        write(fn, df, file_scheme=scheme)
        out = ParquetFile(fn).to_pandas()
        print(scheme, ": written labels", list(df["c"].cat.categories),
              "-> read labels", list(out["c"].cat.categories),
              "| rows", len(out))
        if list(out["c"].cat.categories) != list(df["c"].cat.categories):
            bad = True
        # consequence: the empty piece no longer concatenates as a categorical
        both = pd.concat([out, full], ignore_index=True)
        print("   concat with a non-empty piece gives dtype", both["c"].dtype)

print("VIOLATION: category labels of a 0-row frame replaced by 0..n-1"
      if bad else "ok")
sys.exit(1 if bad else 0)
