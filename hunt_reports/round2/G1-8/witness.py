"""Data-page v2, categorical column with more than 127 labels (codes int16)
and at least one missing value: the file cannot be read back
(ValueError: cannot assign 128 input values to the 64 output values).
The number of non-null rows (64) is a multiple of 8, so the index run written
by encode_dict is complete - this is not the short-bit-packed-run problem."""
import os
import sys
import tempfile
import warnings

os.environ["FASTPARQUET_DATAPAGE_V2"] = "1"     # read at import time

import numpy as np
import pandas as pd
import fastparquet.writer as W
from fastparquet import write, ParquetFile

warnings.simplefilter("ignore")
assert W.DATAPAGE_VERSION == 2
bad = False
with tempfile.TemporaryDirectory() as d:
    fn = os.path.join(d, "x.parq")
    for ncat in (100, 200):
        n = 65
        codes = np.arange(n) % ncat
        codes[10] = -1                               # one missing value
        labels = ["k%03d" % i for i in range(ncat)]
        df = pd.DataFrame({"c": pd.Categorical.from_codes(codes, labels)})
        write(fn, df)
        try:
            out = ParquetFile(fn).to_pandas()
            same = (out["c"].cat.codes.values == codes).all() \
                and list(out["c"].cat.categories) == labels
            print(ncat, "labels (codes %s): read back, equal: %s"
                  % (df["c"].cat.codes.dtype, same))
            if not same:
                bad = True
        except Exception as e:
            print(ncat, "labels (codes %s): read raised %r"
                  % (df["c"].cat.codes.dtype, e))
            bad = True

print("VIOLATION: file written with v2 pages cannot be read back"
      if bad else "ok")
sys.exit(1 if bad else 0)
