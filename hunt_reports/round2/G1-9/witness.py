"""Row index with a pandas nullable dtype (UInt64 / Int64 / boolean): on
reading, the index is pre-allocated as a plain int64 array.
 - UInt64 labels >= 2**63 come back negative (silently wrong labels);
 - a boolean index comes back as 0/1 integers;
 - if the index holds a missing value the file cannot be read at all."""
import os
import sys
import tempfile
import warnings

import numpy as np
import pandas as pd
from fastparquet import write, ParquetFile

warnings.simplefilter("ignore")
bad = False
with tempfile.TemporaryDirectory() as d:
    fn = os.path.join(d, "x.parq")
    cases = {
        "UInt64 >= 2**63": pd.Index(pd.array([2**63 + 5, 1, 3], dtype="UInt64"), name="k"),
        "boolean": pd.Index(pd.array([True, True, False], dtype="boolean"), name="k"),
        "Int64 with <NA>": pd.Index(pd.array([1, None, 3], dtype="Int64"), name="k"),
    }
    for tag, idx in cases.items():
        df = pd.DataFrame({"x": np.arange(len(idx))}, index=idx)
        write(fn, df)
        try:
            out = ParquetFile(fn).to_pandas()
        except Exception as e:
            print("%-16s: written, but reading raised %r" % (tag, e))
            bad = True
            continue
        a = df.index.astype(object).tolist()
        b = out.index.astype(object).tolist()
        print("%-16s: written %r (%s) -> read %r (%s)"
              % (tag, a, df.index.dtype, b, out.index.dtype))
        if [repr(v) for v in a] != [repr(v) for v in b]:
            bad = True
    # the same values as a column are fine
    df = pd.DataFrame({"k": pd.array([2**63 + 5, 1, 3], dtype="UInt64")})
    write(fn, df)
    print("as a column     :", ParquetFile(fn).to_pandas()["k"].tolist())

print("VIOLATION: nullable-dtype row index not restored" if bad else "ok")
sys.exit(1 if bad else 0)
