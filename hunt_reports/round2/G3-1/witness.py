"""C04: per-row-group min/max exposed by ParquetFile.statistics collapse to a
single [None] for a column with a converted/logical type as soon as ONE row
group has no min/max (all-null chunk, or a chunk appended with other stats
settings); sorted_partitioned_columns(pf, filters=...) then raises IndexError."""
import os, sys, tempfile
import numpy as np, pandas as pd
from fastparquet import write, ParquetFile
from fastparquet.api import sorted_partitioned_columns

d = tempfile.mkdtemp()
fn = os.path.join(d, "a.parq")
df = pd.DataFrame({
    "t": pd.to_datetime(["2020-01-01", "2020-01-02", None, None, "2020-01-05", "2020-01-06"]),
    "i": [1, 2, 3, 4, 5, 6],
})
write(fn, df, row_group_offsets=[0, 2, 4], stats=True)   # middle row group: t all null
pf = ParquetFile(fn)
bad = False

raw = [rg.columns[0].meta_data.statistics.min is not None for rg in pf.row_groups]
print("chunks of 't' that carry a min in the file:", raw)
st = pf.statistics
print("statistics['min']['t'] =", st["min"]["t"])
print("statistics['max']['t'] =", st["max"]["t"])
print("statistics['min']['i'] =", st["min"]["i"], "(plain int column: one entry per row group)")
if len(st["min"]["t"]) != len(pf.row_groups) or st["min"]["t"][0] is None:
    print("VIOLATION: row groups 0 and 2 store min/max for 't' but the exposed lists are", st["min"]["t"])
    bad = True

try:
    out = sorted_partitioned_columns(pf, filters=[("i", ">", 4)])
    print("sorted_partitioned_columns with filters ->", out)
except IndexError as e:
    print("VIOLATION: sorted_partitioned_columns(pf, filters=[('i','>',4)]) raised IndexError:", e)
    bad = True
sys.exit(1 if bad else 0)
