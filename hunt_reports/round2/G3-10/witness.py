"""C04: with times='int96' the writer stores min/max for INT96 chunks (under
stats=True and under 'auto'), although INT96 has no defined sort order in the
format (ColumnOrder: INT96 undefined; readers are told to ignore such
statistics).  As raw 12-byte values the stored pair is not even ordered
(min > max bytewise)."""
import os, sys, tempfile
import pandas as pd
from fastparquet import write, ParquetFile

d = tempfile.mkdtemp()
fn = os.path.join(d, "a.parq")
df = pd.DataFrame({"t": pd.to_datetime(["2020-01-01 12:00:00", "1960-01-02 00:00:01"])})
bad = False
for stats in (True, "auto"):
    write(fn, df, times="int96", stats=stats)
    md = ParquetFile(fn).row_groups[0].columns[0].meta_data
    s = md.statistics
    print("stats=%r physical type=%s min=%r max=%r" % (stats, md.type, s.min, s.max))
    if s.min is not None or s.max is not None:
        print("   chunk of a type without defined order carries min/max; bytewise min > max:", s.min > s.max)
        bad = True
sys.exit(1 if bad else 0)
