"""C13: on files with v2 data pages (FASTPARQUET_DATAPAGE_V2=1, or any other
writer's v2 files) row-level filtering / a caller-supplied row mask raises
IndexError for categorical columns, for nullable int / boolean columns holding
nulls, for object-int columns holding nulls, and for EVERY column type as soon
as a chunk has more than one page."""
import os, sys, tempfile
os.environ["FASTPARQUET_DATAPAGE_V2"] = "1"       # read at import time by fastparquet.writer
import numpy as np, pandas as pd
import fastparquet.writer as W
from fastparquet import write, ParquetFile

assert W.DATAPAGE_VERSION == 2
d = tempfile.mkdtemp()
N = 10
df = pd.DataFrame({
    "i": np.arange(N),
    "c": pd.Categorical(list("abcabcabca")),
    "In": pd.Series([1, None] * 5, dtype="Int64"),
    "bn": pd.Series([True, None] * 5, dtype="boolean"),
    "oi": pd.Series([1, None] * 5, dtype=object),
    "f": np.arange(N) * 1.5,
})
fn = os.path.join(d, "v2.parq")
write(fn, df)
full = ParquetFile(fn).to_pandas()
truth = ((df.i >= 3) & (df.i < 8)).values
mask = np.zeros(N, bool); mask[[0, 4, 9]] = True
bad = False
for c in ["c", "In", "bn", "oi", "f"]:
    for label, kw, sel in (("filters+row_filter=True", dict(filters=[("i", ">=", 3), ("i", "<", 8)], row_filter=True), truth),
                           ("row mask", dict(row_filter=mask), mask)):
        try:
            got = ParquetFile(fn).to_pandas(columns=[c], **kw).reset_index(drop=True)
            exp = full[[c]][sel].reset_index(drop=True)
            ok = got[c].astype(object).where(got[c].notna(), None).tolist() == exp[c].astype(object).where(exp[c].notna(), None).tolist()
            print("single page  column %-3s %-24s %s" % (c, label, "ok" if ok else "WRONG %s" % got[c].tolist()))
            bad |= not ok
        except Exception as e:
            print("single page  column %-3s %-24s raised %s: %s" % (c, label, type(e).__name__, str(e)[:70]))
            bad = True

# several v2 pages per chunk (what other writers produce routinely; fastparquet's
# own page limit is 500MB, lowered here only to obtain such a file cheaply)
W.MAX_PAGE_SIZE = 40
fn2 = os.path.join(d, "v2mp.parq")
df2 = pd.DataFrame({"i": np.arange(20), "f": np.arange(20) * 1.5, "s": [chr(97 + k) for k in range(20)]})
write(fn2, df2)
assert all(ParquetFile(fn2).to_pandas()[c].tolist() == df2[c].tolist() for c in df2)   # plain read is fine
for c in ["i", "f", "s"]:
    try:
        got = ParquetFile(fn2).to_pandas(columns=[c], filters=[("i", ">=", 3), ("i", "<", 13)], row_filter=True)
        ok = got[c].tolist() == df2[c][3:13].tolist()
        print("multi page   column %-3s %s" % (c, "ok" if ok else "WRONG"))
        bad |= not ok
    except Exception as e:
        print("multi page   column %-3s raised %s: %s" % (c, type(e).__name__, str(e)[:70]))
        bad = True
sys.exit(1 if bad else 0)
