"""C05: the deprecated Statistics.min / .max fields of a UTF8 column written
by parquet-mr < 1.10 (Hive, Spark 2.x, ...) are ordered by SIGNED byte
comparison (PARQUET-686 / PARQUET-251): bytes >= 0x80 sort first. The format
says these fields may only be used for types with signed order; fastparquet
uses them to prune on text (and prefers them to min_value/max_value), so rows
holding non-ASCII text are lost. File built by hand."""
import os, sys, tempfile
import struct
# ---- minimal thrift compact protocol encoder ----
def uvarint(n):
    out = bytearray()
    while True:
        b = n & 0x7F; n >>= 7
        if n: out.append(b | 0x80)
        else:
            out.append(b); return bytes(out)
def zz(n): return uvarint((n << 1) ^ (n >> 63))
I32, I64, BIN, LST, STRUCT = 5, 6, 8, 9, 12
def enc_val(t, v):
    if t in (I32, I64): return zz(v)
    if t == BIN: return uvarint(len(v)) + v
    if t == STRUCT: return enc_struct(v)
    if isinstance(t, tuple):  # list of t[1]
        et = t[1]; code = et if not isinstance(et, tuple) else LST
        head = bytes([(len(v) << 4) | code]) if len(v) < 15 else bytes([0xF0 | code]) + uvarint(len(v))
        return head + b''.join(enc_val(et, x) for x in v)
    raise ValueError(t)
def enc_struct(fields):
    """fields: list of (id, type, value) sorted by id; value None = absent"""
    out = bytearray(); last = 0
    for fid, t, v in fields:
        if v is None: continue
        code = LST if isinstance(t, tuple) else t
        d = fid - last
        if 0 < d <= 15: out.append((d << 4) | code)
        else: out.append(code); out += zz(fid)
        out += enc_val(t, v); last = fid
    out.append(0)
    return bytes(out)
def schema_el(name, type=None, rep=None, nchild=None, conv=None, tlen=None, scale=None, prec=None):
    return [(1,I32,type),(2,I32,tlen),(3,I32,rep),(4,BIN,name.encode()),(5,I32,nchild),(6,I32,conv),(7,I32,scale),(8,I32,prec)]
def stats(max=None,min=None,nulls=None,max_value=None,min_value=None):
    return [(1,BIN,max),(2,BIN,min),(3,I64,nulls),(5,BIN,max_value),(6,BIN,min_value)]
def page_v1(nvalues, payload):
    dph = [(1,I32,nvalues),(2,I32,0),(3,I32,3),(4,I32,3)]   # PLAIN, RLE, RLE
    ph = [(1,I32,0),(2,I32,len(payload)),(3,I32,len(payload)),(5,STRUCT,dph)]
    return enc_struct(ph) + payload
def build(schema_cols, rgs, created_by=b'parquet-mr version 1.8.1 (build abc)'):
    """schema_cols: list of schema_el(...) for leaf columns (all REQUIRED flat)
    rgs: list of (nrows, [ (ptype, name, [pages bytes], nvalues, stats) ... ])"""
    body = bytearray(b'PAR1'); rg_structs = []
    for nrows, cols in rgs:
        chunks = []; tot = 0
        for ptype, name, pages, nvalues, st in cols:
            off = len(body); data = b''.join(pages); body += data; tot += len(data)
            cmd = [(1,I32,ptype),(2,(LST,I32),[0,3]),(3,(LST,BIN),[name.encode()]),(4,I32,0),(5,I64,nvalues),
                   (6,I64,len(data)),(7,I64,len(data)),(9,I64,off),(12,STRUCT,st)]
            chunks.append([(2,I64,off),(3,STRUCT,cmd)])
        rg_structs.append([(1,(LST,STRUCT),chunks),(2,I64,tot),(3,I64,nrows)])
    root = schema_el('schema', nchild=len(schema_cols))
    fmd = [(1,I32,1),(2,(LST,STRUCT),[root]+schema_cols),(3,I64,sum(r[0] for r in rgs)),(4,(LST,STRUCT),rg_structs),(6,BIN,created_by)]
    foot = enc_struct(fmd)
    body += foot + struct.pack('<I', len(foot)) + b'PAR1'
    return bytes(body)
def plain_ba(vals): return b''.join(struct.pack('<I',len(v))+v for v in vals)

from fastparquet import ParquetFile
sv = [u'a'.encode(), u'\u00e9'.encode(), u'b'.encode()]      # 'a', 'e-acute' (C3 A9), 'b'
# signed-byte order: C3 A9 < 'a' < 'b'  ->  min = e-acute, max = 'b'  (what old parquet-mr stored)
f = build([schema_el('s', type=6, rep=0, conv=0), schema_el('x', type=2, rep=0)],
          [(3, [(6, 's', [page_v1(3, plain_ba(sv))], 3, stats(max=b'b', min=sv[1], nulls=0)),
                (2, 'x', [page_v1(3, struct.pack('<3q', 0, 1, 2))], 3, stats(nulls=0))])],
          created_by=b'parquet-mr version 1.8.1 (build 4aba4dae7bb0d4edbcf7923ae1339f28fd3f7fcf)')
fn = os.path.join(tempfile.mkdtemp(), 'legacy.parquet')
open(fn, 'wb').write(f)
full = ParquetFile(fn).to_pandas()
print(full)
bad = False
for flt in ([('s', '==', u'\u00e9')], [('s', 'in', [u'\u00e9'])], [('s', '>', 'b')], [('s', '==', 'a')]):
    c, op, v = flt[0]
    vals = full.s.tolist()
    test = {'==': lambda a: a == v, '>': lambda a: a > v, 'in': lambda a: a in v}[op]
    exp = [x for x, a in zip(full.x.tolist(), vals) if test(a)]
    got = ParquetFile(fn).to_pandas(filters=flt).x.tolist()
    print(flt, '-> kept x =', got, '; qualifying x =', exp)
    if not set(exp) <= set(got):
        bad = True
if bad:
    print("VIOLATION: row group with qualifying rows pruned on signed-ordered legacy min/max")
sys.exit(1 if bad else 0)
