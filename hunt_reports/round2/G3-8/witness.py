"""C13: with row_filter=True any comparison condition (==, =, <, <=, >, >=, !=)
on a pandas-nullable column (Int64 / boolean, also an object column of ints with
None, which reads back as Int64) raises ValueError as soon as the column holds a
null in one of the row groups kept by pruning; to_pandas and count both fail.
'in' works on the same column."""
import os, sys, tempfile
import numpy as np, pandas as pd
from fastparquet import write, ParquetFile

d = tempfile.mkdtemp()
fn = os.path.join(d, "a.parq")
df = pd.DataFrame({"x": np.arange(10),
                   "n": pd.Series([1, None, 2, 3, None, 1, 2, 3, 1, 2], dtype="Int64"),
                   "b": pd.Series([True, None, False, True, None] * 2, dtype="boolean")})
write(fn, df, row_group_offsets=[0, 5])
bad = False
cases = [([("n", "==", 1)], [0, 5, 8]), ([("n", ">", 1)], [2, 3, 6, 7, 9]), ([("n", "<=", 1), ("x", ">", 2)], [5, 8]),
         ([("b", "==", True)], [0, 3, 5, 8]), ([("n", "in", [1])], [0, 5, 8])]
for flt, exp in cases:
    print(flt, " rows kept by pruning:", ParquetFile(fn).to_pandas(filters=flt).x.tolist())
    for what in ("to_pandas", "count"):
        try:
            pf = ParquetFile(fn)
            got = (pf.to_pandas(filters=flt, row_filter=True).x.tolist() if what == "to_pandas"
                   else int(pf.count(filters=flt, row_filter=True)))
            ok = got == (exp if what == "to_pandas" else len(exp))
            print("   %-9s -> %s %s" % (what, got, "" if ok else "WRONG, expected %s" % exp))
            bad |= not ok
        except Exception as e:
            print("   %-9s raised %s: %s  (expected %s)" % (what, type(e).__name__, str(e)[:75], exp))
            bad = True
sys.exit(1 if bad else 0)
