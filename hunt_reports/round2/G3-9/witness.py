"""C05: an 'in' / 'not in' condition whose constants are given as a set (or
frozenset) on a text column raises TypeError: unhashable type 'StringArray' as
soon as one row group has min == max for that column. The same constants as a
list work. (Sets are accepted for every other column type.)"""
import os, sys, tempfile
import pandas as pd
from fastparquet import write, ParquetFile

d = tempfile.mkdtemp()
fn = os.path.join(d, "a.parq")
df = pd.DataFrame({"s": ["a", "a", "a", "b", "c", "d"], "x": range(6)})
write(fn, df, row_group_offsets=[0, 3], stats=True)       # row group 0: min == max == 'a'
bad = False
print("list:", ParquetFile(fn).to_pandas(filters=[("s", "in", ["a", "b"])]).x.tolist())
print("int column with a set:", ParquetFile(fn).to_pandas(filters=[("x", "in", {1, 4})]).x.tolist())
for flt, need in (([("s", "in", {"a", "b"})], {0, 1, 2, 3}), ([("s", "in", frozenset(["c"]))], {4}),
                  ([("s", "not in", {"q"})], {0, 1, 2, 3, 4, 5})):
    try:
        got = ParquetFile(fn).to_pandas(filters=flt).x.tolist()
        print(flt, "->", got)
        bad |= not need <= set(got)
    except Exception as e:
        print(flt, "raised %s: %s" % (type(e).__name__, e))
        bad = True
sys.exit(1 if bad else 0)
