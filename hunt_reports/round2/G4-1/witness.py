"""pickle.dumps(ParquetFile) overruns the fixed-size buffer of ThriftObject.to_bytes
when the footer (here: long string min/max statistics) is bigger than
max(500000, 1000 * n_row_groups * n_schema_elements) bytes.

The parent process builds the dataset and runs the pickling in a child process,
because the overrun corrupts the heap (abort / segfault) instead of raising.
"""
import os, subprocess, sys, tempfile, textwrap

CHILD = textwrap.dedent('''
    import glob, os, pickle, sys
    import numpy as np, pandas as pd
    from fastparquet import ParquetFile, write
    d = sys.argv[1]
    L, NFILES = 60_000, 12
    for i in range(NFILES):
        df = pd.DataFrame({"s": [chr(97 + i) * L, chr(98 + i) * L], "i": np.arange(2) + 2 * i})
        # every part file is fine on its own: its footer is ~120 kB
        write(os.path.join(d, "part.%i.parquet" % i), df, stats=True)
    files = sorted(glob.glob(os.path.join(d, "*.parquet")))
    pf = ParquetFile(files)                     # merged footer: ~1.4 MB
    full = pf.to_pandas()
    print("child: opened", len(pf.row_groups), "row groups,", len(full), "rows", flush=True)
    blob = pickle.dumps(pf)                     # <- ThriftObject.to_bytes, 500000-byte buffer
    print("child: pickled", len(blob), "bytes", flush=True)
    back = pickle.loads(blob)
    got = back.to_pandas()
    ok = got.equals(full) and back.count() == pf.count()
    print("child: restored handle reads the same:", ok, flush=True)
    sys.exit(0 if ok else 3)
''')

with tempfile.TemporaryDirectory() as d:
    script = os.path.join(d, "child.py")
    with open(script, "w") as f:
        f.write(CHILD)
    data = os.path.join(d, "data"); os.mkdir(data)
    r = subprocess.run([sys.executable, script, data], capture_output=True, text=True)
    print(r.stdout, end="")
    print("child stderr (tail):", r.stderr[-300:].strip())
    print("child return code:", r.returncode)
    if r.returncode != 0:
        print("VIOLATION: pickling the handle killed / broke the process")
        sys.exit(1)
    print("no violation")
    sys.exit(0)
