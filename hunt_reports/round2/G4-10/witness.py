"""A read that selects no row group (pf[0:0], or filters that exclude every row group)
returns categorical columns whose categories are the allocation placeholder
range(0, n) (integers) instead of the stored labels: the labels are only installed
while a row group is being read.  The corresponding part of the full read,
full.iloc[0:0], has the labels.
"""
import os, sys, tempfile
import numpy as np, pandas as pd
from fastparquet import ParquetFile, write

with tempfile.TemporaryDirectory() as d:
    n = 12
    df = pd.DataFrame({'i': np.arange(n), 'c': pd.Categorical([['a', 'b', 'c'][k % 3] for k in range(n)])})
    fn = os.path.join(d, 'c.parq')
    write(fn, df, row_group_offsets=[0, 4, 8])
    pf = ParquetFile(fn)
    full = pf.to_pandas()
    want = full.iloc[0:0]['c'].dtype
    print('full.iloc[0:0].c.dtype          :', repr(want))
    bad = False
    for title, got in [('pf[0:0].to_pandas()', pf[0:0].to_pandas()),
                       ('pf[3:].to_pandas()', pf[3:].to_pandas()),
                       ("to_pandas(filters=[('i','>',100)])", pf.to_pandas(filters=[('i', '>', 100)])),
                       ("pf[1:].head(0, filters=[('i','<',0)])", pf[1:].head(0, filters=[('i', '<', 0)]))]:
        dt = got['c'].dtype
        print('%-38s: %d rows, %r' % (title, len(got), dt))
        if dt != want:
            bad = True
    some = pf.to_pandas(filters=[('i', '>', 7)])
    none = pf.to_pandas(filters=[('i', '>', 100)])
    both = pd.concat([some, none])
    print('concat(filtered non-empty, filtered empty).c.dtype:', both['c'].dtype, '(category expected)')
    if bad:
        print('VIOLATION: the empty part of the dataset has other categories than the same part of the full read')
        sys.exit(1)
    print('no violation')
    sys.exit(0)
