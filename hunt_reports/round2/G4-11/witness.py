"""A MAP column whose top-level name is 'key' is assembled inverted: {value: key}.
core.read_row_group_arrays decides which of the two chunks holds the keys by looking at
path_in_schema[0] (the top-level column name) instead of the leaf name.
Input: test-data/map-test.snappy.parquet (spark) with the column 'topics' renamed to
'key' in the footer (schema element name and path_in_schema[0]); data pages untouched.
"""
import os, struct, sys, tempfile
from fastparquet import ParquetFile

src = os.path.join(os.path.dirname(os.path.abspath(__file__)), '..', '..', 'test-data', 'map-test.snappy.parquet')
pf = ParquetFile(src)
orig = pf.to_pandas()['topics']
raw = open(src, 'rb').read()
body = raw[:len(raw) - 8 - pf._head_size]
fmd = pf.fmd
fmd.schema[1].name = 'key'
for rg in fmd.row_groups:
    for c in rg.columns:
        p = list(c.meta_data[3]); p[0] = 'key'; c.meta_data[3] = p
foot = bytes(fmd.to_bytes())
with tempfile.TemporaryDirectory() as d:
    fn = os.path.join(d, 'm.parq')
    with open(fn, 'wb') as f:
        f.write(body); f.write(foot); f.write(struct.pack('<I', len(foot))); f.write(b'PAR1')
    pf2 = ParquetFile(fn)
    print(pf2.schema.text)
    got = pf2.to_pandas()['key']
    print("column named 'topics', row 0:", dict(list(orig.iloc[0].items())[:3]), '...', len(orig.iloc[0]), 'entries')
    print("column named 'key',    row 0:", dict(list(got.iloc[0].items())[:3]), '...', len(got.iloc[0]), 'entries')
    same = all((a == b) if a is not None else b is None for a, b in zip(orig, got))
    if not same:
        print('VIOLATION: renaming the column changes the decoded maps (keys and values swapped, entries lost)')
        sys.exit(1)
    print('no violation')
    sys.exit(0)
