"""ParquetFile(fn, dtypes=...) never computes self.tz (it is only set inside _dtypes
when no dtypes were given), so time-zone aware columns are allocated naive:
the handle reports datetime64[us, Europe/Berlin], the frame holds naive UTC
wall-clock values.  pf.to_pandas(dtypes=<the same dict>) on a plain handle is right.
"""
import os, sys, tempfile
import numpy as np, pandas as pd
from fastparquet import ParquetFile, write

with tempfile.TemporaryDirectory() as d:
    n = 6
    df = pd.DataFrame({'a': np.arange(n),
                       't': pd.date_range('2020-06-01 12:00', periods=n, freq='h', tz='Europe/Berlin')})
    fn = os.path.join(d, 'x.parq')
    write(fn, df, row_group_offsets=[0, 3])
    plain = ParquetFile(fn)
    own = dict(plain.dtypes)                       # exactly what the handle reports itself
    print('dtypes given        :', own)
    ref = plain.to_pandas(dtypes=own)              # per-call override: fine
    print('to_pandas(dtypes=..):', ref['t'].dtype, ref['t'].iloc[0])

    pf = ParquetFile(fn, dtypes=own)               # handle-level override
    rep = pf.dtypes['t']
    out = pf.to_pandas()
    print('ParquetFile(dtypes=..).dtypes[t] :', rep)
    print('ParquetFile(dtypes=..).to_pandas :', out['t'].dtype, out['t'].iloc[0])
    part = pf[1].to_pandas()
    print('   ... its row group 1           :', part['t'].dtype, part['t'].iloc[0])
    bad = (out['t'].dtype != pd.api.types.pandas_dtype(rep)) or not out['t'].equals(ref['t'])
    if bad:
        print('VIOLATION: reported dtype is tz-aware, data read are naive (UTC wall clock)')
        sys.exit(1)
    print('no violation')
    sys.exit(0)
