"""DataFrame.dtypes of the frame returned by to_pandas() is stale for every categorical
column: it shows the placeholder categories range(0, n) that the frame was allocated
with, while the column itself carries the real labels.
"""
import os, sys, tempfile, warnings
import numpy as np, pandas as pd
from fastparquet import ParquetFile, write
warnings.simplefilter('ignore')

with tempfile.TemporaryDirectory() as d:
    df = pd.DataFrame({'c': pd.Categorical([10, 20, 30, 40, 50] * 2), 'z': np.arange(10)})
    fn = os.path.join(d, 'c.parq')
    write(fn, df, row_group_offsets=[0, 4])
    pf = ParquetFile(fn)
    print('handle reports         :', pf.dtypes['c'])
    bad = False
    for title, got in [('to_pandas()', pf.to_pandas()), ('pf[1].to_pandas()', pf[1].to_pandas()),
                       ('head(3)', pf.head(3)), ("to_pandas(columns=['c'])", pf.to_pandas(columns=['c']))]:
        frame_says = got.dtypes['c']
        column_is = got['c'].dtype
        print('%-26s frame.dtypes[c] = %r' % (title, frame_says))
        print('%-26s frame[c].dtype  = %r' % ('', column_is))
        if frame_says != column_is:
            bad = True
    got = pf.to_pandas()
    # consequences: anything that trusts DataFrame.dtypes
    other = pd.DataFrame({'c': [10, 20, 30], 'z': [1, 2, 3]})
    cast = other.astype(got.dtypes.to_dict())
    print('other.astype(got.dtypes) ->', cast['c'].tolist(), '(expected [10, 20, 30])')
    print('got.dtypes equals original frame dtypes:', got.dtypes['c'] == df.dtypes['c'],
          '| column dtype equals original:', got['c'].dtype == df['c'].dtype)
    if bad:
        print('VIOLATION: DataFrame.dtypes of the frame read disagrees with the data in the frame')
        sys.exit(1)
    print('no violation')
    sys.exit(0)
