"""pyarrow-style pandas metadata of a frame with an *unnamed* tz-aware DatetimeIndex:
the column entry has "name": null and "field_name": "__index_level_0__".
fastparquet keys the metadata (and the time-zone map) by "name", so the zone recorded
for __index_level_0__ is never found: the index comes back naive, holding the UTC
wall clock.  (The file is a fastparquet file whose footer metadata was re-written.)
"""
import json, os, struct, sys, tempfile
import numpy as np, pandas as pd
from fastparquet import ParquetFile, write, parquet_thrift

with tempfile.TemporaryDirectory() as d:
    n = 4
    idx = pd.date_range('2020-06-01 12:00', periods=n, freq='h', tz='Europe/Berlin')
    flat = os.path.join(d, 'flat.parq')
    write(flat, pd.DataFrame({'a': np.arange(n), '__index_level_0__': idx}), row_group_offsets=[0, 2])
    pf = ParquetFile(flat)
    raw = open(flat, 'rb').read()
    body = raw[:len(raw) - 8 - pf._head_size]
    fmd = pf.fmd
    pm = json.loads(pf.key_value_metadata['pandas'])
    for c in pm['columns']:
        if c['name'] == '__index_level_0__':
            # as pyarrow.pandas_compat writes it
            c.update(name=None, field_name='__index_level_0__', pandas_type='datetimetz',
                     numpy_type='datetime64[ns]', metadata={'timezone': 'Europe/Berlin'})
    pm['index_columns'] = ['__index_level_0__']
    pm['creator'] = {'library': 'pyarrow', 'version': '14.0.0'}
    fmd.key_value_metadata = [parquet_thrift.KeyValue(key=b'pandas', value=json.dumps(pm).encode())]
    fmd.created_by = b'parquet-cpp-arrow version 14.0.0'
    foot = bytes(fmd.to_bytes())
    fn = os.path.join(d, 'arrowlike.parq')
    with open(fn, 'wb') as f:
        f.write(body); f.write(foot); f.write(struct.pack('<I', len(foot))); f.write(b'PAR1')

    pf = ParquetFile(fn)
    print('pandas metadata entry:', [c for c in pf.pandas_metadata['columns'] if c['field_name'] == '__index_level_0__'][0])
    print('reported dtype of __index_level_0__:', pf.dtypes['__index_level_0__'])
    out = pf.to_pandas()
    print('index read    :', out.index.dtype, list(map(str, out.index)))
    print('index expected:', idx.dtype, list(map(str, idx)))
    flat_read = pf.to_pandas(index=False)['__index_level_0__']
    print('as a column   :', flat_read.dtype, str(flat_read.iloc[0]))
    same_instant = getattr(out.index, 'tz', None) is not None and (out.index == idx).all()
    if not same_instant:
        print('VIOLATION: the recorded time zone is lost; values are the UTC wall clock, 2 hours off as naive times')
        sys.exit(1)
    print('no violation')
    sys.exit(0)
