"""A file written from a frame with MultiIndex columns and a named row index cannot be
read with the index suppressed (index=False): pre_allocate literal_eval()s every
column label that is not an index name, and with index=False the stored index column
'ix' is an ordinary column whose name is not a tuple literal.
"""
import os, sys, tempfile
import numpy as np, pandas as pd
from fastparquet import ParquetFile, write

with tempfile.TemporaryDirectory() as d:
    n = 6
    cols = pd.MultiIndex.from_tuples([('a', 'x'), ('a', 'y'), ('b', 'x')], names=['l0', 'l1'])
    df = pd.DataFrame(np.arange(n * 3).reshape(n, 3), columns=cols,
                      index=pd.Index(np.arange(n) * 2, name='ix'))
    fn = os.path.join(d, 'mi.parq')
    write(fn, df, row_group_offsets=[0, 2, 4])
    pf = ParquetFile(fn)
    print('columns:', pf.columns)
    full = pf.to_pandas()
    print('default read ok:', full.shape, list(full.columns))
    failures = 0
    for title, f in [('to_pandas(index=False)', lambda: pf.to_pandas(index=False)),
                     ('pf[1].to_pandas(index=False)', lambda: pf[1].to_pandas(index=False)),
                     ('head(3, index=False)', lambda: pf.head(3, index=False)),
                     ('iter_row_groups(index=False)', lambda: pd.concat(list(pf.iter_row_groups(index=False)))),
                     ("to_pandas(index=\"('a', 'x')\")", lambda: pf.to_pandas(index="('a', 'x')"))]:
        try:
            out = f()
            print(title, '->', out.shape, list(out.columns))
        except Exception as e:
            failures += 1
            print(title, '-> raised', repr(e)[:150])
    if failures:
        print('VIOLATION: suppressing / choosing the index is refused for a dataset the default read handles')
        sys.exit(1)
    print('no violation')
    sys.exit(0)
