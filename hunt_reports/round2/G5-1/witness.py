"""Footer / _metadata serialisation writes past its buffer: an append whose
row groups carry long string statistics crashes the process and leaves the
file / dataset unreadable."""
import os, subprocess, sys, tempfile

import pandas as pd


def frame(start, n, width=2000):
    return pd.DataFrame({"s": [("%05d" % i) + "x" * width
                               for i in range(start, start + n)]})


if len(sys.argv) > 1 and sys.argv[1] == "child":
    from fastparquet import write
    path, scheme = sys.argv[2], sys.argv[3]
    # 100 more row groups, statistics on (min and max are the 2 kB strings)
    write(path, frame(100, 100), row_group_offsets=1, stats=True,
          append=True, file_scheme=scheme)
    sys.exit(0)

from fastparquet import write, ParquetFile

bad = False
for scheme in ["simple", "hive"]:
    d = tempfile.mkdtemp()
    path = os.path.join(d, "ds")
    write(path, frame(0, 100), row_group_offsets=1, stats=True,
          file_scheme=scheme)
    before = ParquetFile(path).to_pandas()
    print(scheme, ": rows before the append:", len(before))
    r = subprocess.run([sys.executable, os.path.abspath(__file__), "child",
                        path, scheme], capture_output=True)
    print(scheme, ": append process exit code:", r.returncode,
          r.stderr.decode(errors="replace")[-120:].strip())
    try:
        after = ParquetFile(path).to_pandas()
        n = len(after)
        print(scheme, ": rows after:", n)
        ok = (r.returncode == 0 and n == 200) or \
             (r.returncode != 0 and after.equals(before))
        if r.returncode == 0 and n == 200:
            exp = pd.concat([before, frame(100, 100)], ignore_index=True)
            ok = list(after.s) == list(exp.s)
    except Exception as e:
        print(scheme, ": dataset unreadable after the append:", repr(e)[:150])
        ok = False
    if not ok:
        bad = True
print("VIOLATION" if bad else "ok")
sys.exit(1 if bad else 0)
