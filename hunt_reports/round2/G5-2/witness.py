"""Appending a frame whose partition column has another dtype (int64 -> float64,
e.g. after pandas turned the column to float) is accepted; afterwards the whole
dataset is taken for a 'drill' dataset: column p disappears, a text column dir0
= 'p=1' appears, and further appends are refused."""
import sys, tempfile

import numpy as np
import pandas as pd
from fastparquet import write, ParquetFile

d = tempfile.mkdtemp()
first = pd.DataFrame({"x": [1, 2, 3], "p": np.array([1, 2, 2], dtype="int64")})
write(d, first, file_scheme="hive", partition_on=["p"])
before = ParquetFile(d).to_pandas()
print("before:", ParquetFile(d).file_scheme, list(before.columns),
      before.values.tolist())

second = pd.DataFrame({"x": [4, 5], "p": np.array([1.0, 3.0])})  # float64
refused = False
try:
    write(d, second, file_scheme="hive", partition_on=["p"], append=True)
    print("append of a float64 partition column: accepted")
except Exception as e:
    refused = True
    print("append refused:", repr(e)[:120])

pf = ParquetFile(d)
after = pf.to_pandas()
print("after :", pf.file_scheme, dict(pf.cats))
print(after)

bad = False
if refused:
    bad = not after.equals(before)
else:
    # accepted: the old rows must still read back as before, p must exist
    if "p" not in after.columns or pf.file_scheme != "hive":
        bad = True
    else:
        bad = after["x"].tolist() != [1, 2, 3, 4, 5] or \
            [float(v) for v in after["p"]] != [1, 2, 2, 1, 3]
try:
    write(d, first, file_scheme="hive", partition_on=["p"], append=True)
except Exception as e:
    print("a further, perfectly compatible append is now refused:", repr(e)[:100])
    bad = True
print("VIOLATION" if bad else "ok")
sys.exit(1 if bad else 0)
