"""A plain (non-categorical) string column appended to a column stored as
categorical is accepted; afterwards the file / dataset cannot be read any
more with the default arguments."""
import os, sys, tempfile

import pandas as pd
from fastparquet import write, ParquetFile

bad = False
for scheme in ["simple", "hive"]:
    d = tempfile.mkdtemp()
    path = os.path.join(d, "data")
    first = pd.DataFrame({"c": pd.Categorical(["a", "b", "a"]), "k": [1, 2, 3]})
    write(path, first, file_scheme=scheme)
    before = ParquetFile(path).to_pandas()
    second = pd.DataFrame({"c": ["b", "z"], "k": [4, 5]})   # same labels type, not categorical
    try:
        write(path, second, file_scheme=scheme, append=True)
        print(scheme, ": append of a non-categorical column accepted")
        accepted = True
    except Exception as e:
        print(scheme, ": append refused:", repr(e)[:100])
        accepted = False
    try:
        after = ParquetFile(path).to_pandas()
        print(scheme, ": reads back", after.c.astype(str).tolist(), after.k.tolist())
        if accepted:
            ok = after.c.astype(str).tolist() == ["a", "b", "a", "b", "z"]
        else:
            ok = after.equals(before)
    except Exception as e:
        print(scheme, ": UNREADABLE after the append:", repr(e)[:150])
        ok = False
    bad |= not ok
print("VIOLATION" if bad else "ok")
sys.exit(1 if bad else 0)
