"""Hive datasets partitioned on a timedelta or Period column are written without
complaint but cannot be used afterwards: the timedelta one is taken for a drill
dataset (column p lost, append refused), the Period one cannot even be opened."""
import os, sys, tempfile

import pandas as pd
from fastparquet import write, ParquetFile

bad = False
cases = {
    "timedelta64": pd.to_timedelta(["1 days", "2 hours"]),
    "period[M]": pd.period_range("2020-01", periods=2, freq="M"),
}
for name, vals in cases.items():
    d = tempfile.mkdtemp()
    df = pd.DataFrame({"x": [1, 2], "p": vals})
    write(d, df, file_scheme="hive", partition_on=["p"])
    print(name, ": written, directories",
          sorted(x for x in os.listdir(d) if not x.startswith("_")))
    try:
        pf = ParquetFile(d)
        out = pf.to_pandas()
        print(name, ": scheme", pf.file_scheme, "columns", list(out.columns),
              out.values.tolist())
        if pf.file_scheme != "hive" or "p" not in out.columns:
            bad = True
    except Exception as e:
        print(name, ": cannot be opened:", type(e).__name__, str(e)[:120])
        bad = True
        continue
    try:
        write(d, df, file_scheme="hive", partition_on=["p"], append=True)
        print(name, ": append ok, rows", len(ParquetFile(d).to_pandas()))
    except Exception as e:
        print(name, ": append of an identical frame refused:", repr(e)[:120])
        bad = True
print("VIOLATION" if bad else "ok")
sys.exit(1 if bad else 0)
