"""A frame whose columns are a MultiIndex can be written but never appended:
the column check compares the tuples of the frame with the stringified names
in the file."""
import os, sys, tempfile

import pandas as pd
from fastparquet import write, ParquetFile

cols = pd.MultiIndex.from_tuples([("a", "x"), ("a", "y"), ("b", "z")],
                                 names=["l0", "l1"])
df = pd.DataFrame([[1, 2, 3], [4, 5, 6]], columns=cols)
bad = False
for scheme in ["simple", "hive"]:
    d = tempfile.mkdtemp()
    path = os.path.join(d, "data")
    write(path, df, file_scheme=scheme)
    back = ParquetFile(path).to_pandas()
    print(scheme, ": written and read back with columns", list(back.columns))
    try:
        write(path, df, file_scheme=scheme, append=True)
        out = ParquetFile(path).to_pandas()
        print(scheme, ": append ok", out.values.tolist())
        bad |= out.values.tolist() != [[1, 2, 3], [4, 5, 6]] * 2
    except Exception as e:
        print(scheme, ": append of the very same frame refused:",
              type(e).__name__, str(e)[:160])
        bad = True
print("VIOLATION" if bad else "ok")
sys.exit(1 if bad else 0)
