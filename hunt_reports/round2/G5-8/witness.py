"""writer.convert does not compare the kind / resolution / time zone of an
appended column with the column it goes into: text becomes True in a boolean
column, integers become timestamps, zone-aware times are shifted into a naive
column, and millisecond stamps appended to a datetime64[s] column make the
whole file unreadable.  None of these appends is refused."""
import os, sys, tempfile

import numpy as np
import pandas as pd
from fastparquet import write, ParquetFile


def attempt(title, first, second):
    d = tempfile.mkdtemp()
    fn = os.path.join(d, "f.parq")
    write(fn, pd.DataFrame({"c": first}))
    before = ParquetFile(fn).to_pandas()
    try:
        write(fn, pd.DataFrame({"c": second}), append=True)
    except Exception as e:
        after = ParquetFile(fn).to_pandas()
        print("%-34s refused (%s), old rows intact: %s"
              % (title, type(e).__name__, after.equals(before)))
        return after.equals(before)
    try:
        got = ParquetFile(fn).to_pandas().c.iloc[len(first):].tolist()
    except Exception as e:
        print("%-34s ACCEPTED, file now unreadable: %s" % (title, str(e)[:70]))
        return False
    want = second.tolist()
    same = [str(a) for a in got] == [str(b) for b in want]
    print("%-34s ACCEPTED; appended %r, reads back %r" % (title, want, got))
    return same


ts = lambda *a, **k: pd.Series(pd.to_datetime(list(a), format="ISO8601"), **k)
ok = True
ok &= attempt("bool column <- text", pd.Series([True, False]),
              pd.Series(["x", "no"], dtype=object))
ok &= attempt("bool column <- int64", pd.Series([True, False]),
              pd.Series([0, 7], dtype="int64"))
ok &= attempt("datetime64[ns] column <- int64",
              ts("2020-01-01", "2020-01-02").astype("datetime64[ns]"),
              pd.Series([5, 6], dtype="int64"))
ok &= attempt("naive datetime column <- tz-aware",
              ts("2020-01-01", "2020-01-02").astype("datetime64[ns]"),
              ts("2021-01-01 00:00", "2021-01-02 00:00").astype("datetime64[ns]")
              .dt.tz_localize("Asia/Tokyo"))
ok &= attempt("tz-aware column <- naive datetime",
              ts("2020-01-01", "2020-01-02").astype("datetime64[ns]")
              .dt.tz_localize("Asia/Tokyo"),
              ts("2021-01-01 00:00", "2021-01-02 00:00").astype("datetime64[ns]"))
ok &= attempt("datetime64[s] column <- [ms]",
              ts("2020-01-01", "2020-01-02").astype("datetime64[s]"),
              ts("2021-01-01 00:00:00.123", "2021-01-02").astype("datetime64[ms]"))
ok &= attempt("float32 column <- float64 1e39",
              pd.Series([1.5, 2.5], dtype="float32"),
              pd.Series([1e39, 0.5], dtype="float64"))
print("ok" if ok else "VIOLATION")
sys.exit(0 if ok else 1)
