"""C14: a list of files whose categorical column carries different dictionaries
comes back with the wrong labels in the rows of all but the last file."""
import os, sys, tempfile
import pandas as pd
from fastparquet import write, ParquetFile
from fastparquet.writer import merge

d = tempfile.mkdtemp()
a = pd.DataFrame({'c': pd.Categorical(['x', 'y', 'x']), 'v': [1, 2, 3]})
b = pd.DataFrame({'c': pd.Categorical(['q', 'y', 'p', 'p']), 'v': [4, 5, 6, 7]})
fa, fb = os.path.join(d, 'a.parquet'), os.path.join(d, 'b.parquet')
write(fa, a)
write(fb, b)
expected = ['x', 'y', 'x', 'q', 'y', 'p', 'p']
bad = False


def labels(pf):
    out = pf.to_pandas()
    codes = out['c'].cat.codes.tolist()
    cats = list(out['c'].cat.categories)
    # decode by hand: codes beyond the categories would crash the interpreter
    return [cats[i] if 0 <= i < len(cats) else '<code %d out of range>' % i
            for i in codes], out['v'].tolist()


for how, pf in [('list', ParquetFile([fa, fb])),
                ('directory', ParquetFile(d)),
                ('glob', ParquetFile(d + '/*.parquet')),
                ('merge', merge([fa, fb]))]:
    got, v = labels(pf)
    print(how, 'v =', v, 'c =', got)
    if got != expected:
        bad = True
plain = ParquetFile([fa, fb]).to_pandas(categories=[])['c'].tolist()
print('same files read without categories:', plain)
print('expected c =', expected)
if bad:
    print('VIOLATION: rows of the first file carry labels of the second file\'s dictionary')
    sys.exit(1)
sys.exit(0)
