"""C14: a single data file opened with root= gets its partition columns from
the directory names, but reading it crashes."""
import os, sys, tempfile
import pandas as pd
from fastparquet import write, ParquetFile

d = tempfile.mkdtemp()
os.makedirs(os.path.join(d, 'ds', 'k=1'))
fn = os.path.join(d, 'ds', 'k=1', 'x.parquet')
write(fn, pd.DataFrame({'v': [10, 11]}))

ref = ParquetFile([fn], root=os.path.join(d, 'ds'))
print('as a one-element list:', ref.file_scheme, dict(ref.cats), ref.to_pandas().to_dict('list'))

pf = ParquetFile(fn, root=os.path.join(d, 'ds'))
print('as a plain path     :', pf.file_scheme, dict(pf.cats), 'columns', pf.columns, 'dtypes', dict(pf.dtypes))
try:
    out = pf.to_pandas()
    print(out.to_dict('list'))
    ok = out.to_dict('list') == {'v': [10, 11], 'k': [1, 1]} or out.to_dict('list') == {'v': [10, 11]}
except Exception as e:
    print('to_pandas() raised %s: %s' % (type(e).__name__, e))
    ok = False
if not ok:
    print('VIOLATION: the handle announces partition column k but cannot be read')
    sys.exit(1)
sys.exit(0)
