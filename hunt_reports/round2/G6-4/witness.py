"""C08: a partition column used as the index comes back with the first key
value in every row."""
import sys, tempfile
import pandas as pd
from fastparquet import write, ParquetFile

bad = False
# (a) the frame's named index is the partition column: default write, default read
df = pd.DataFrame({'v': [1, 2, 3]}, index=pd.Index([5, 6, 5], name='k'))
d = tempfile.mkdtemp()
write(d, df, file_scheme='hive', partition_on=['k'])
out = ParquetFile(d).to_pandas()
pairs = sorted(zip(out.index.tolist(), out['v'].tolist()))
print('(a) index/v pairs read back:', pairs, ' column k:', out['k'].tolist() if 'k' in out else None)
if pairs != [(5, 1), (5, 3), (6, 2)]:
    bad = True

# (b) ordinary partition column, asked for as index on read; hive and drill
df = pd.DataFrame({'k': [5, 6, 5], 'v': [1, 2, 3]})
for scheme, name in (('hive', 'k'), ('drill', 'dir0')):
    d = tempfile.mkdtemp()
    write(d, df, file_scheme=scheme, partition_on=['k'])
    out = ParquetFile(d).to_pandas(index=name)
    pairs = sorted(zip(out.index.tolist(), out['v'].tolist()))
    print('(b) %s: index=%r gives' % (scheme, name), pairs, 'columns', list(out.columns))
    if pairs != [(5, 1), (5, 3), (6, 2)]:
        bad = True
print('expected pairs: [(5, 1), (5, 3), (6, 2)]')
if bad:
    print('VIOLATION: the row with v == 2 is labelled k == 5 in the index')
    sys.exit(1)
sys.exit(0)
