"""C08: whether a partitioned write succeeds depends on row_group_offsets.
A chunk in which one key column is entirely null, next to a categorical key
column, makes the writer crash instead of dropping those rows."""
import sys, tempfile
import numpy as np
import pandas as pd
from fastparquet import write, ParquetFile

df = pd.DataFrame({'a': [np.nan, 1.0, 2.0],
                   'c': pd.Categorical(['x', 'y', 'x']),
                   'v': [10, 11, 12]})
bad = False
for scheme in ('hive', 'drill'):
    for rgo in (None, [0, 1], 1):
        d = tempfile.mkdtemp()
        try:
            write(d, df, file_scheme=scheme, partition_on=['a', 'c'], row_group_offsets=rgo)
            out = ParquetFile(d).to_pandas()
            print(scheme, 'row_group_offsets=%r' % (rgo,), '-> rows read back v =', sorted(out['v'].tolist()))
            if sorted(out['v'].tolist()) != [11, 12]:
                bad = True
        except Exception as e:
            print(scheme, 'row_group_offsets=%r' % (rgo,), '-> write raised %s: %s' % (type(e).__name__, e))
            bad = True
print('expected: rows v == [11, 12] for every row_group_offsets (the row with a null key is dropped)')
if bad:
    print('VIOLATION')
    sys.exit(1)
sys.exit(0)
