"""C08 (drill layout): the directory levels carry the key text, but text keys
come back as other values: distinct keys are merged, month names become
timestamps in year 1, 'today' becomes the time of reading."""
import sys, tempfile
import pandas as pd
from fastparquet import write, ParquetFile

bad = False
cases = [
    ['1', '01', '1.0'],      # three different keys, three directories
    ['007', '010'],
    ['jan', 'feb'],
    ['today', '12:30'],
    ['True', '1', '0'],
]
for keys in cases:
    df = pd.DataFrame({'k': keys, 'v': list(range(len(keys)))})
    d = tempfile.mkdtemp()
    write(d, df, file_scheme='drill', partition_on=['k'])
    pf = ParquetFile(d)
    out = pf.to_pandas().sort_values('v')
    got = out['dir0'].astype(object).tolist()
    texts = ['%s' % g for g in got]
    print('keys written %r -> dir0 read %r' % (keys, got))
    if texts != keys or len(set(map(repr, got))) != len(set(keys)):
        bad = True
    # the same frame in the hive layout keeps the text
    d = tempfile.mkdtemp()
    write(d, df, file_scheme='hive', partition_on=['k'])
    h = ParquetFile(d).to_pandas().sort_values('v')['k'].astype(object).tolist()
    if h != keys:
        print('   (hive also differs: %r)' % h)
if bad:
    print('VIOLATION: drill key text is not what comes back (values merged or turned into other kinds)')
    sys.exit(1)
sys.exit(0)
