"""C08 (drill layout): a value column that happens to be called dir0 is
silently replaced by the partition level of the same positional name."""
import sys, tempfile
import pandas as pd
from fastparquet import write, ParquetFile

df = pd.DataFrame({'dir0': [100, 200, 300], 'k': ['a', 'b', 'a'], 'w': [1.5, 2.5, 3.5]})
d = tempfile.mkdtemp()
write(d, df, file_scheme='drill', partition_on=['k'])
pf = ParquetFile(d)
out = pf.to_pandas()
print('columns on the handle:', pf.columns, 'partition levels:', dict(pf.cats))
print(out)
print('column labels read back:', list(out.columns))
vals = out['dir0']
vals = vals.iloc[:, 0] if isinstance(vals, pd.DataFrame) else vals
got = sorted(map(str, vals.astype(object).tolist()))
print('dir0 values read back:', got, ' written value column dir0:', [100, 200, 300])
if 100 not in out.astype(object).values.ravel().tolist():
    print('VIOLATION: the written values 100/200/300 are gone; dir0 holds the key text instead')
    sys.exit(1)
sys.exit(0)
