"""C08: a partitioned dataset without rows (empty frame, or every key null)
loses its partition column on read, and can no longer be appended to."""
import sys, tempfile
import pandas as pd
from fastparquet import write, ParquetFile

df = pd.DataFrame({'k': [1, 2], 'v': [1.5, 2.5]})
bad = False
for scheme in ('hive', 'drill'):
    d = tempfile.mkdtemp()
    write(d, df.iloc[:0], file_scheme=scheme, partition_on=['k'])
    pf = ParquetFile(d)
    out = pf.to_pandas()
    print(scheme, ': recorded partition columns',
          [c['name'] for c in pf.pandas_metadata['partition_columns']],
          '| handle: scheme', pf.file_scheme, 'cats', dict(pf.cats), 'columns', pf.columns,
          '| frame columns', list(out.columns), 'rows', len(out))
    want = 'k' if scheme == 'hive' else 'dir0'
    if want not in out.columns:
        bad = True
d = tempfile.mkdtemp()
write(d, df.iloc[:0], file_scheme='hive', partition_on=['k'])
for po in (['k'], []):
    try:
        write(d, df, file_scheme='hive', partition_on=po, append=True)
        back = ParquetFile(d).to_pandas()
        print('append with partition_on=%r ok:' % po, back.to_dict('list'))
        if 'k' not in back.columns:
            bad = True
    except Exception as e:
        print('append with partition_on=%r raised %s: %s' % (po, type(e).__name__, str(e)[:110]))
        bad = True
if bad:
    print('VIOLATION: the partition column of an empty partitioned dataset is not reconstructed')
    sys.exit(1)
sys.exit(0)
