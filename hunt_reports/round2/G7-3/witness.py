# ---- minimal hand-written parquet builder (thrift compact protocol + RLE hybrid), independent of fastparquet ----
import io, os, struct, sys, tempfile

def uvarint(n):
    out = bytearray()
    while n > 0x7f:
        out.append((n & 0x7f) | 0x80); n >>= 7
    out.append(n)
    return bytes(out)

def zz(n):
    return ((n << 1) ^ (n >> 63)) & 0xFFFFFFFFFFFFFFFF

class I32(int): pass
class I64(int): pass
class Struct(dict): pass          # field id -> value
class TList(list):                # thrift list with explicit element type
    def __init__(self, etype, items):
        super().__init__(items); self.etype = etype
T_I32, T_I64, T_BIN, T_LIST, T_STRUCT = 5, 6, 8, 9, 12

def enc_value(v):
    if isinstance(v, (I32, I64)): return uvarint(zz(int(v)))
    if isinstance(v, (bytes, str)):
        b = v.encode() if isinstance(v, str) else v
        return uvarint(len(b)) + b
    if isinstance(v, Struct): return enc_struct(v)
    if isinstance(v, TList):
        n = len(v)
        h = bytes([(n << 4) | v.etype]) if n < 15 else bytes([0xf0 | v.etype]) + uvarint(n)
        return h + b''.join(enc_value(x) for x in v)
    raise TypeError(type(v))

def wtype(v):
    if isinstance(v, bool): return 1 if v else 2
    if isinstance(v, I32): return T_I32
    if isinstance(v, I64): return T_I64
    if isinstance(v, (bytes, str)): return T_BIN
    if isinstance(v, Struct): return T_STRUCT
    if isinstance(v, TList): return T_LIST
    raise TypeError(type(v))

def enc_struct(s, longform=False):
    out = bytearray(); prev = 0
    for fid in sorted(s):
        v = s[fid]
        if v is None: continue
        t = wtype(v); d = fid - prev
        if 0 < d <= 15 and not longform:
            out.append((d << 4) | t)              # short form: delta and type in one byte
        else:
            out.append(t); out += uvarint(zz(fid))  # long form: type byte, then zigzag field id
        prev = fid
        if not isinstance(v, bool): out += enc_value(v)
    out.append(0)
    return bytes(out)

def enc_hybrid(vals, width):
    """RLE/bit-packed hybrid, written as RLE runs only"""
    out = bytearray(); i = 0; vals = list(vals)
    while i < len(vals):
        j = i
        while j < len(vals) and vals[j] == vals[i]: j += 1
        out += uvarint((j - i) << 1) + int(vals[i]).to_bytes((width + 7) // 8, 'little')
        i = j
    return bytes(out)

def levels_v1(vals, maxlevel):
    if maxlevel == 0: return b''
    b = enc_hybrid(vals, maxlevel.bit_length())
    return struct.pack('<I', len(b)) + b

def levels_v2(vals, maxlevel):
    return b'' if maxlevel == 0 else enc_hybrid(vals, maxlevel.bit_length())

BOOLEAN, INT32, INT64, BYTE_ARRAY = 0, 1, 2, 6
def plain(vals, ptype):
    if ptype == INT32: return b''.join(struct.pack('<i', v) for v in vals)
    if ptype == INT64: return b''.join(struct.pack('<q', v) for v in vals)
    if ptype == BYTE_ARRAY:
        return b''.join(struct.pack('<I', len(v)) + v for v in [x.encode() if isinstance(x, str) else x for x in vals])
    raise TypeError

ENC_PLAIN, ENC_RLE, ENC_RLE_DICT = 0, 3, 8
def data_page_v1(rep, defi, values_bytes, max_rep, max_def, encoding=ENC_PLAIN):
    body = levels_v1(rep, max_rep) + levels_v1(defi, max_def) + values_bytes
    dph = Struct({1: I32(len(defi)), 2: I32(encoding), 3: I32(ENC_RLE), 4: I32(ENC_RLE)})
    return enc_struct(Struct({1: I32(0), 2: I32(len(body)), 3: I32(len(body)), 5: dph})) + body

def data_page_v2(rep, defi, values_bytes, nnulls, nrows, max_rep, max_def, encoding=ENC_PLAIN):
    r = levels_v2(rep, max_rep); d = levels_v2(defi, max_def)
    body = r + d + values_bytes
    dph = Struct({1: I32(len(defi)), 2: I32(nnulls), 3: I32(nrows), 4: I32(encoding),
                  5: I32(len(d)), 6: I32(len(r)), 7: False})
    return enc_struct(Struct({1: I32(3), 2: I32(len(body)), 3: I32(len(body)), 8: dph})) + body

def dict_page(values_bytes, n):
    dph = Struct({1: I32(n), 2: I32(ENC_PLAIN)})
    return enc_struct(Struct({1: I32(2), 2: I32(len(values_bytes)), 3: I32(len(values_bytes)), 7: dph})) + values_bytes

def dict_indices(idx, ndict):
    w = max((ndict - 1).bit_length(), 1)
    return bytes([w]) + enc_hybrid(idx, w)

REQUIRED, OPTIONAL, REPEATED = 0, 1, 2
CT_UTF8, CT_MAP, CT_LIST, CT_DATE, CT_UINT_32 = 0, 1, 3, 6, 13
def se(name, type=None, rep=None, nchildren=None, ct=None):
    return Struct({1: None if type is None else I32(type), 3: None if rep is None else I32(rep), 4: name,
                   5: None if nchildren is None else I32(nchildren), 6: None if ct is None else I32(ct)})

def list_schema(name, outer_rep, elem_type, elem_rep, elem_ct=None):
    return [se(name, rep=outer_rep, nchildren=1, ct=CT_LIST), se('list', rep=REPEATED, nchildren=1),
            se('element', type=elem_type, rep=elem_rep, ct=elem_ct)]

def map_schema(name, outer_rep, ktype, vtype, vrep, kct=None):
    return [se(name, rep=outer_rep, nchildren=1, ct=CT_MAP), se('key_value', rep=REPEATED, nchildren=2),
            se('key', type=ktype, rep=REQUIRED, ct=kct), se('value', type=vtype, rep=vrep)]

class FileBuilder:
    def __init__(self):
        self.buf = io.BytesIO(); self.buf.write(b'PAR1'); self.row_groups = []
    def column_chunk(self, path, ptype, pages, num_values, has_dict=False):
        start = self.buf.tell(); dict_off = None; first_data = None; size = 0
        for i, p in enumerate(pages):
            if has_dict and i == 0: dict_off = self.buf.tell()
            elif first_data is None: first_data = self.buf.tell()
            self.buf.write(p); size += len(p)
        cmd = Struct({1: I32(ptype), 2: TList(T_I32, [I32(0), I32(3), I32(8)]), 3: TList(T_BIN, list(path)),
                      4: I32(0), 5: I64(num_values), 6: I64(size), 7: I64(size), 9: I64(first_data),
                      11: None if dict_off is None else I64(dict_off)})
        return Struct({2: I64(start), 3: cmd})
    def row_group(self, chunks, nrows):
        tot = sum(int(c[3][6]) for c in chunks)
        self.row_groups.append(Struct({1: TList(T_STRUCT, chunks), 2: I64(tot), 3: I64(nrows)}))
    def finish(self, schema_elems):
        nrows = sum(int(rg[3]) for rg in self.row_groups)
        fmd = Struct({1: I32(1), 2: TList(T_STRUCT, schema_elems), 3: I64(nrows),
                      4: TList(T_STRUCT, self.row_groups), 6: b'handmade'})
        b = enc_struct(fmd)
        self.buf.write(b); self.buf.write(struct.pack('<I', len(b))); self.buf.write(b'PAR1')
        return self.buf.getvalue()

def shred_list(rows, outer_optional, elem_optional):
    """Dremel shredding of a one-level list column -> rep levels, def levels, values, max def level"""
    base = 1 if outer_optional else 0
    max_def = base + 1 + (1 if elem_optional else 0)
    rep, defi, vals = [], [], []
    for row in rows:
        if row is None: rep.append(0); defi.append(0)
        elif len(row) == 0: rep.append(0); defi.append(base)
        else:
            for i, v in enumerate(row):
                rep.append(0 if i == 0 else 1)
                if v is None: defi.append(base + 1)
                else: defi.append(max_def); vals.append(v)
    return rep, defi, vals, max_def

def list_chunk(fb, name, rows, outer_opt, elem_opt, ptype=INT32, splits=(), version=1, encodings=None):
    """one column chunk; pages split at level-entry positions `splits`;
    encodings: per page 'plain' or 'dict' (default all plain)"""
    rep, defi, vals, max_def = shred_list(rows, outer_opt, elem_opt)
    bounds = [0] + list(splits) + [len(rep)]
    encodings = encodings or ['plain'] * (len(bounds) - 1)
    uniq = sorted(set(vals)); pages = []
    use_dict = 'dict' in encodings
    if use_dict: pages.append(dict_page(plain(uniq, ptype), len(uniq)))
    for (a, b), e in zip(zip(bounds[:-1], bounds[1:]), encodings):
        r, d = rep[a:b], defi[a:b]
        nvb = sum(1 for x in defi[:a] if x == max_def); nv = sum(1 for x in d if x == max_def)
        v = vals[nvb:nvb + nv]
        if e == 'dict': vb = dict_indices([uniq.index(x) for x in v], len(uniq)); enc = ENC_RLE_DICT
        else: vb = plain(v, ptype); enc = ENC_PLAIN
        if version == 1: pages.append(data_page_v1(r, d, vb, 1, max_def, enc))
        else: pages.append(data_page_v2(r, d, vb, len(r) - nv, sum(1 for x in r if x == 0), 1, max_def, enc))
    return fb.column_chunk([name, 'list', 'element'], ptype, pages, len(rep), has_dict=use_dict)

def norm(x):
    """numpy scalars -> python values"""
    if x is None: return None
    if isinstance(x, dict): return {norm1(k): norm1(v) for k, v in x.items()}
    return [norm1(v) for v in x]
def norm1(v):
    return v.item() if hasattr(v, 'item') and not str(type(v)).count('datetime64') else v

def write_tmp(data, name='f.parquet'):
    d = tempfile.mkdtemp(); fn = os.path.join(d, name)
    with open(fn, 'wb') as f: f.write(data)
    return fn
# ---- end of builder ----

# Witness: a MAP column whose name happens to be "key".
import fastparquet
bad = 0
mrows = [{'a': 1, 'b': 2}, {}, {'c': 3}]
def build(name):
    rep, kd, vd, ks, vs = [], [], [], [], []
    for row in mrows:
        if not row: rep.append(0); kd.append(0); vd.append(0)
        for i, (k, v) in enumerate(row.items()):
            rep.append(0 if i == 0 else 1); kd.append(1); ks.append(k); vd.append(1); vs.append(v)
    fb = FileBuilder()
    kch = fb.column_chunk([name, 'key_value', 'key'], BYTE_ARRAY, [data_page_v1(rep, kd, plain(ks, BYTE_ARRAY), 1, 1)], len(rep))
    vch = fb.column_chunk([name, 'key_value', 'value'], INT32, [data_page_v1(rep, vd, plain(vs, INT32), 1, 1)], len(rep))
    fb.row_group([kch, vch], len(mrows))
    return fb.finish([se('schema', nchildren=1)] + map_schema(name, REQUIRED, BYTE_ARRAY, INT32, REQUIRED, kct=CT_UTF8))
for name in ('m', 'key'):
    fn = write_tmp(build(name))
    got = [norm(x) for x in fastparquet.ParquetFile(fn).to_pandas()[name]]
    print('MAP<string,int32> column named %r' % name)
    print('  expected:', mrows)
    print('  got     :', got)
    if got != mrows: bad = 1
print('VIOLATION' if bad else 'ok')
sys.exit(bad)
