# Witness: assigning a list of plain values (strings, ints, dicts) to a list-valued field of a
# ThriftObject kills the interpreter.  Run in child processes so that this script survives.
import subprocess, sys

cases = {
    'path_in_schema = [str, str]': (
        "from fastparquet.cencoding import ThriftObject\n"
        "cmd = ThriftObject.from_fields('ColumnMetaData', type=1, encodings=[0], path_in_schema=['a'],\n"
        "                               codec=0, num_values=1, i32list=[1, 4])\n"
        "cmd.path_in_schema = ['b', 'c']\n"
        "print('assigned', cmd.path_in_schema, bytes(cmd.to_bytes()))\n"),
    'encodings = [int, int]': (
        "from fastparquet.cencoding import ThriftObject\n"
        "cmd = ThriftObject.from_fields('ColumnMetaData', type=1, encodings=[0], path_in_schema=['a'],\n"
        "                               codec=0, num_values=1, i32list=[1, 4])\n"
        "cmd.encodings = [0, 3]\n"
        "print('assigned', cmd.encodings, bytes(cmd.to_bytes()))\n"),
    'on metadata parsed from a file written by fastparquet': (
        "import tempfile, os, pandas as pd, fastparquet\n"
        "fn = os.path.join(tempfile.mkdtemp(), 'f.parquet')\n"
        "fastparquet.write(fn, pd.DataFrame({'x': [1, 2]}))\n"
        "pf = fastparquet.ParquetFile(fn)\n"
        "md = pf.fmd.row_groups[0].columns[0].meta_data\n"
        "md.path_in_schema = ['x']\n"
        "print('assigned', md.path_in_schema)\n"),
    'control: from_fields with the same list': (
        "from fastparquet.cencoding import ThriftObject\n"
        "cmd = ThriftObject.from_fields('ColumnMetaData', type=1, encodings=[0, 3], path_in_schema=['b', 'c'],\n"
        "                               codec=0, num_values=1, i32list=[1, 4])\n"
        "print('built', cmd.path_in_schema, cmd.encodings)\n"),
}
bad = 0
for label, code in cases.items():
    p = subprocess.run([sys.executable, '-c', code], capture_output=True, text=True)
    print('%-55s exit code %4d  stdout: %s' % (label, p.returncode, p.stdout.strip()[:120]))
    if p.returncode < 0:
        bad = 1
print('VIOLATION (interpreter killed by a signal)' if bad else 'ok')
sys.exit(bad)
