#!/bin/sh
# Run after every commit to /repo: regenerate the frozen references from the (fixed) pinned tree, run every check,
# and verify that every kept seed patch still applies.
cd "$(dirname "$0")/.."
/venv/bin/python tools/gen_callsigs.py > /dev/null || exit 1
/venv/bin/python tools/gen_refnames.py > /dev/null || exit 1
bad=0
for p in C01 C02 C03 C04 C05 C06 C07 C08 C09 C10 C11 C12 C13 C14 C15 C16 C17 C18 C19 C20; do
  out=$(/venv/bin/python -m engine.check $p); rc=$?
  if [ $rc -ne 0 ]; then echo "$p exit $rc"; echo "$out" | grep -v KNOWN | tail -4 | cut -c1-300; bad=1; fi
done
for s in seeded/C*-*/; do
  d=$(mktemp -d); (cd /repo && git ls-files -z fastparquet | xargs -0 cp --parents -t $d)
  (cd / && git apply --unsafe-paths --directory=$d /verif/$s/patch.diff >/dev/null 2>&1) || { echo "NOAPPLY $(basename $s)"; bad=1; }
  rm -rf $d
done
[ $bad -eq 0 ] && echo "after_fix: all checks pass, all seeds apply"
exit $bad
