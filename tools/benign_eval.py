"""Run every check on a scratch copy of /repo's package with each BENIGN patch applied (behaviour-preserving refactors made
by fresh sub-agents, kept under benign/<PID>-b<n>/).  Every non-zero exit is a false alarm (or an analysis that gave up).
usage: benign_eval.py [dir-with-patches ...]   (default: /verif/benign/*)"""
import glob, json, os, shutil, subprocess, sys, tempfile
from concurrent.futures import ThreadPoolExecutor
HERE = os.path.dirname(os.path.dirname(os.path.abspath(__file__)))
PIDS = ['C%02d' % i for i in range(1, 21)]


def one(pd):
    name = os.path.basename(pd.rstrip('/'))
    d = tempfile.mkdtemp(prefix='fpq_bn_'); r = os.path.join(d, 'r'); os.makedirs(r)
    try:
        subprocess.check_call('cd /repo && git ls-files -z fastparquet | xargs -0 cp --parents -t %s' % r, shell=True)
        p = subprocess.run(['git', 'apply', '--unsafe-paths', '--directory=' + r, os.path.join(pd, 'patch.diff')], cwd='/', capture_output=True, text=True)
        if p.returncode:
            return name, None
        res = {}
        for pid in PIDS:
            q = subprocess.run(['/venv/bin/python', '-m', 'engine.check', pid, '--repo', r, '--no-evidence', '--json'], cwd=HERE, capture_output=True, text=True)
            if q.returncode:
                keys = []
                for l in q.stdout.split('\n'):
                    if l.startswith('RESULT-JSON '):
                        keys = json.loads(l[12:])['violations']
                    if l.startswith('ANALYSIS-ERROR'):
                        keys = [l[:220]]
                res[pid] = {'exit': q.returncode, 'keys': keys[:5]}
        return name, res
    finally:
        shutil.rmtree(d)


if __name__ == '__main__':
    dirs = sys.argv[1:] or sorted(glob.glob(os.path.join(HERE, 'benign', 'C*-[a-z]*')))
    with ThreadPoolExecutor(int(os.environ.get('JOBS', '14'))) as ex:
        out = list(ex.map(one, dirs))
    n_alarm = 0
    for name, res in out:
        if res is None:
            print('%-10s patch does not apply' % name)
            continue
        for pid, a in sorted(res.items()):
            n_alarm += 1
            print('%-10s %s %s %s' % (name, pid, 'VIOLATION' if a['exit'] == 1 else 'analysis-error', '; '.join(k[:120] for k in a['keys'][:3])))
    ok = [n for n, r in out if r is not None]
    print('benign changes: %d applied, with any alarm: %d, (change, check) alarms: %d' % (
        len(ok), sum(1 for n, r in out if r), n_alarm))
    ka = os.path.join(HERE, 'benign', 'KNOWN_ALARMS.json')
    if os.path.exists(ka):
        known = set(json.load(open(ka))) - {'_comment'}
        now = {n for n, r in out if r}
        print('listed in KNOWN_ALARMS.json and alarming: %d; alarming but not listed: %s; listed but silent now: %s' % (
            len(now & known), sorted(now - known), sorted((known & {n for n, r in out if r is not None}) - now)))
