"""debugging aid: apply a patch to a scratch copy of the package, canonicalise one module and print one function
usage: canon_show.py <patch.diff> <module> <qualname>"""
import ast, os, shutil, subprocess, sys, tempfile
HERE = os.path.dirname(os.path.dirname(os.path.abspath(__file__)))
sys.path.insert(0, HERE)
from engine import canon
patch, mod, qual = sys.argv[1:4]
d = tempfile.mkdtemp(prefix='fpq_cs_')
try:
    subprocess.check_call('cd /repo && git ls-files -z fastparquet | xargs -0 cp --parents -t %s' % d, shell=True)
    subprocess.check_call(['git', 'apply', '--unsafe-paths', '--directory=' + d, os.path.abspath(patch)], cwd='/')
    tree = ast.parse(open(os.path.join(d, 'fastparquet', mod + '.py')).read())
    for n in canon.canonicalise(mod, tree):
        print('NOTE', n)
    for q, f in canon.top_functions(tree):
        if q == qual:
            print(ast.unparse(f))
finally:
    shutil.rmtree(d)
