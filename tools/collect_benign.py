"""Collect a round of agent-made behaviour-preserving refactors: for every <root>/<PID>/out/<n>/patch.diff confirm that
it applies to /repo HEAD (in a fresh scratch copy of the tracked tree with the compiled modules), that the package still
imports, and that the pinned suite still passes with it; the confirmed ones are copied to /verif/benign/<PID>-<letter><n>/.
usage: collect_benign.py /tmp/benign2 c"""
import glob, json, os, shutil, subprocess, sys, tempfile
from concurrent.futures import ThreadPoolExecutor
HERE = os.path.dirname(os.path.dirname(os.path.abspath(__file__)))


def one(job):
    pid, n, src, letter = job
    name = '%s-%s%s' % (pid, letter, n)
    d = tempfile.mkdtemp(prefix='fpq_cb_')
    try:
        subprocess.check_call('cd /repo && git ls-files -z | xargs -0 cp --parents -t %s' % d, shell=True)
        for so in glob.glob('/repo/fastparquet/*.so'):
            shutil.copy(so, os.path.join(d, 'fastparquet'))
        p = subprocess.run(['git', 'apply', '--unsafe-paths', '--directory=' + d, os.path.join(src, 'patch.diff')], cwd='/', capture_output=True, text=True)
        if p.returncode:
            return name, 'does not apply to HEAD: ' + p.stderr.strip()[:200]
        q = subprocess.run(['/venv/bin/python', '-c', 'import fastparquet'], cwd=d, env=dict(os.environ, PYTHONPATH=d), capture_output=True, text=True)
        if q.returncode:
            return name, 'package does not import: ' + q.stderr.strip()[-200:]
        t = subprocess.run(['sh', os.path.join(HERE, 'tools', 'pinned.sh'), d], capture_output=True, text=True)
        if t.returncode:
            return name, 'pinned suite: ' + t.stdout.strip()[-300:]
        dst = os.path.join(HERE, 'benign', name)
        os.makedirs(dst, exist_ok=True)
        shutil.copy(os.path.join(src, 'patch.diff'), dst)
        meta = {}
        try:
            meta = json.load(open(os.path.join(src, 'meta.json')))
        except Exception:
            pass
        meta['confirmed'] = {'repo_head': subprocess.check_output(['git', '-C', '/repo', 'rev-parse', '--short', 'HEAD'], text=True).strip(),
                             'ran': ['git apply on a scratch copy of HEAD', 'import fastparquet', 'pinned suite: all 339 BASELINE stable_pass tests pass']}
        json.dump(meta, open(os.path.join(dst, 'meta.json'), 'w'), indent=1)
        return name, 'kept'
    finally:
        shutil.rmtree(d)


if __name__ == '__main__':
    root, letter = sys.argv[1], sys.argv[2]
    jobs = []
    for pd in sorted(glob.glob(os.path.join(root, 'C*'))):
        for sd in sorted(glob.glob(os.path.join(pd, 'out', '[0-9]*'))):
            if os.path.exists(os.path.join(sd, 'patch.diff')):
                jobs.append((os.path.basename(pd), os.path.basename(sd), sd, letter))
    with ThreadPoolExecutor(int(os.environ.get('JOBS', '6'))) as ex:
        for name, res in ex.map(one, jobs):
            print('%-10s %s' % (name, res))
