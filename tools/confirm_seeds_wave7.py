"""Confirm seeded changes independently: for each /tmp/seed/<PID>/out/<n>/ make a fresh scratch
worktree of /repo HEAD, run demo (must pass), apply the patch, run demo (must fail), run the
pinned suite (pass set must equal BASELINE stable_pass), remove the worktree.  Confirmed seeds
are copied to /verif/seeded/<PID>-<n>/ with meta.json extended by what was run."""
import json, os, shutil, subprocess, sys, tempfile, glob, xml.etree.ElementTree as ET
from concurrent.futures import ThreadPoolExecutor
HERE = os.path.dirname(os.path.dirname(os.path.abspath(__file__)))
BASE = set(json.load(open('/root/.vp/BASELINE.json'))['stable_pass'])
PY = '/venv/bin/python'

def run(cmd, cwd, env=None, timeout=1200):
    e = dict(os.environ); e.update(env or {})
    p = subprocess.run(cmd, cwd=cwd, env=e, capture_output=True, text=True, timeout=timeout, shell=isinstance(cmd, str))
    return p.returncode, (p.stdout + p.stderr)[-1500:]

def confirm(seed_dir):
    pid = seed_dir.split('/')[3]; n = os.path.basename(seed_dir.rstrip('/'))
    name = '%s-v%s' % (pid, n)
    out = {'seed': name}
    if not all(os.path.exists(os.path.join(seed_dir, f)) for f in ('patch.diff', 'demo.py', 'meta.json')):
        out['status'] = 'incomplete'; return out
    wt = tempfile.mkdtemp(prefix='confirm_%s_' % name, dir='/tmp')
    os.rmdir(wt)
    try:
        subprocess.check_call(['git', '-C', '/repo', 'worktree', 'add', '-q', '--detach', wt, 'HEAD'])
        for so in glob.glob('/repo/fastparquet/*.so'):
            shutil.copy(so, os.path.join(wt, 'fastparquet'))
        env = {'PYTHONPATH': wt}
        demo = os.path.join(wt, '_demo_seed.py')
        txt = open(os.path.join(seed_dir, 'demo.py')).read().replace('/tmp/seed7/%s' % pid, wt)
        open(demo, 'w').write(txt)
        rc0, o0 = run([PY, demo], wt, env)
        out['demo_clean_rc'] = rc0
        rc, o = run(['git', 'apply', os.path.join(seed_dir, 'patch.diff')], wt)
        if rc:
            out['status'] = 'patch-does-not-apply'; out['log'] = o; return out
        rc1, o1 = run([PY, demo], wt, env)
        out['demo_patched_rc'] = rc1
        out['demo_patched_tail'] = o1[-300:]
        xml = os.path.join(wt, '_junit.xml')
        rc2, o2 = run([PY, '-m', 'pytest', '-q', '-p', 'no:cacheprovider', '--timeout=900',
                       '--continue-on-collection-errors', '--junitxml=' + xml, 'fastparquet'], wt, env)
        passed = set()
        for tc in ET.parse(xml).iter('testcase'):
            if not any(c.tag in ('failure', 'error', 'skipped') for c in tc):
                passed.add(tc.get('classname') + '::' + tc.get('name'))
        out['suite_missing_from_baseline'] = sorted(BASE - passed)
        out['suite_extra'] = len(passed - BASE)
        ok = rc0 == 0 and rc1 != 0 and not (BASE - passed)
        out['status'] = 'confirmed' if ok else 'rejected'
        if ok:
            dst = os.path.join(HERE, 'seeded', name)
            os.makedirs(dst, exist_ok=True)
            shutil.copy(os.path.join(seed_dir, 'patch.diff'), dst)
            shutil.copy(os.path.join(seed_dir, 'demo.py'), dst)
            meta = json.load(open(os.path.join(seed_dir, 'meta.json'))); meta['round'] = 7
            meta['confirmed_by_framework_author'] = {
                'repo_head': subprocess.check_output(['git', '-C', '/repo', 'rev-parse', '--short', 'HEAD'], text=True).strip(),
                'ran': ['fresh scratch worktree of /repo HEAD under /tmp (removed afterwards)',
                        'demo.py on clean tree -> exit %d' % rc0,
                        'git apply patch.diff; demo.py -> exit %d' % rc1,
                        'pinned pytest command with the patch applied: all %d BASELINE stable_pass tests still pass' % len(BASE)],
            }
            json.dump(meta, open(os.path.join(dst, 'meta.json'), 'w'), indent=1)
        return out
    except Exception as e:
        out['status'] = 'error'; out['log'] = repr(e); return out
    finally:
        subprocess.run(['git', '-C', '/repo', 'worktree', 'remove', '--force', wt], capture_output=True)
        shutil.rmtree(wt, ignore_errors=True)

if __name__ == '__main__':
    pids = sys.argv[1:]
    dirs = []
    for pid in pids:
        dirs += sorted(d for d in glob.glob('/tmp/seed7/%s/out/[0-9]*' % pid) if os.path.isdir(d))
    with ThreadPoolExecutor(8) as ex:
        res = list(ex.map(confirm, dirs))
    for r in res:
        print(json.dumps(r)[:400])
    prev = []
    p = '/tmp/seed7/confirm_results.json'
    if os.path.exists(p):
        prev = json.load(open(p))
    json.dump(prev + res, open(p, 'w'), indent=1)
