"""Prepare a round of BENIGN changes: fresh sub-agents make behaviour-preserving refactors in the code a property depends
on.  Every alarm a check raises on one of them is a false alarm of the machinery.
usage: gen_benign_prompts.py /tmp/benign1 [PID ...]          (ROUND=2 in the environment: 4 bolder refactors per property)"""
import glob, json, os, shutil, subprocess, sys
HERE = os.path.dirname(os.path.dirname(os.path.abspath(__file__)))
T = '''You are working alone in a scratch git worktree of the open-source Python library dask/fastparquet at {wt} (a detached checkout; the compiled extension modules *.so are already copied in). Work ONLY inside {wt}. Do not read or touch /verif or /repo. Cython is NOT installed: change only .py files under {wt}/fastparquet/ (not the tests, not test-data).

Run Python as:   cd {wt} && PYTHONPATH={wt} /venv/bin/python <script>
Run the suite as: cd {wt} && PYTHONPATH={wt} /venv/bin/python -m pytest -q -p no:cacheprovider --timeout=900 fastparquet --junitxml={wt}/out/run.xml 2>&1 | tail -5
On the unchanged tree some tests pass and some fail (pre-existing failures of this offline environment). Before changing anything, run the suite once and save the per-test outcomes so you can compare precisely later (compare test ids, not counts).

Here is a behavioural property that this library satisfies (apart from known corner cases) and must keep satisfying:

  Title: {title}
  Statement: {statement}
  Anchored in: {files}

YOUR TASK: produce 3 independent, BEHAVIOUR-PRESERVING refactors ("clean-ups"), each a separate patch against the unchanged HEAD, in the code this property depends on (the files above; pick the functions that implement the property). Each must be the kind of change a maintainer really makes while tidying up: renaming locals, extracting a helper function, inlining a helper or a temporary, turning a loop into a comprehension or back, reordering independent statements, replacing `%` formatting by f-strings, flattening or un-nesting an if/else, early returns instead of nesting, replacing an idiom by a truly equivalent one, splitting a long expression, moving a constant to module level, adding type hints or comments. Each should touch between 5 and 40 lines and at least one of the three should touch the most central function of the property. The three should differ in kind. The refactored code must behave EXACTLY as before for every input (same results, same exceptions, same files written) - if you are not sure a rewrite is equivalent, choose another one. Do not fix bugs, do not change messages of exceptions, do not change public signatures.

For each change n in 1..3 write:
  {wt}/out/<n>/patch.diff  - output of `git diff` against HEAD (must apply with `git apply` from the worktree root)
  {wt}/out/<n>/meta.json   - {{"property": "{pid}", "summary": "...what was changed...", "kind": "rename|extract|inline|loop-comprehension|reorder|format|control-flow|idiom|other", "why_equivalent": "...", "files_touched": [...]}}

Verify each change yourself: apply the patch, `import fastparquet`, run the full suite (same pass/fail sets as baseline - compare the ids), and exercise the touched function with a small script of your own comparing results before and after on a few inputs; then revert with `git checkout -- .`. Leave the worktree clean (no patch applied; only out/ untracked) when you finish. Finish with a short report: one line per change.'''


BOLD = ('YOUR TASK: produce 4 independent, BEHAVIOUR-PRESERVING refactors', ' At least three of the four must change the STRUCTURE of the code, not just names or comments: move code between functions (extract a helper used from two places, inline a small helper into its only caller, turn a closure into a module-level function or a method), re-arrange control flow (guard clauses, merged or split conditions, loop fusion or fission, a lookup table instead of an if-chain, `any`/`all`/`next` instead of a flag loop), or change how intermediate values are held (a temporary introduced or removed, tuple unpacking, a dict/zip built differently). Be as bold as a confident maintainer would be - but stay exactly equivalent.')


def main():
    global T
    if os.environ.get('ROUND') == '2':
        T = T.replace('YOUR TASK: produce 3 independent, BEHAVIOUR-PRESERVING refactors', BOLD[0]).replace('The three should differ in kind.', 'The four should differ in kind.' + BOLD[1]).replace('For each change n in 1..3', 'For each change n in 1..4')
    root = sys.argv[1]
    props = {json.loads(l)['id']: json.loads(l) for l in open(os.path.join(HERE, 'properties.jsonl'))}
    pids = sys.argv[2:] or [p for p in sorted(props) if p not in ('C12',)]
    os.makedirs(os.path.join(root, 'prompts'), exist_ok=True)
    for pid in pids:
        wt = os.path.join(root, pid)
        if not os.path.exists(wt):
            subprocess.check_call(['git', '-C', '/repo', 'worktree', 'add', '-q', '--detach', wt, 'HEAD'])
            for so in glob.glob('/repo/fastparquet/*.so'):
                shutil.copy(so, os.path.join(wt, 'fastparquet'))
            os.makedirs(os.path.join(wt, 'out'), exist_ok=True)
        p = props[pid]
        files = ', '.join(f for f in p['anchors']['files'] if f.endswith('.py')) or 'fastparquet/*.py'
        open(os.path.join(root, 'prompts', pid + '.txt'), 'w').write(T.format(wt=wt, title=p['title'], statement=p['statement'], files=files, pid=pid))
    print('prepared', len(pids), 'worktrees and prompts under', root)


if __name__ == '__main__':
    main()
