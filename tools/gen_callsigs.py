"""Freeze the bound-parameter sets of every resolved call site of the pinned tree (engine/callsigs.json)."""
import json, os, sys
HERE = os.path.dirname(os.path.dirname(os.path.abspath(__file__)))
sys.path.insert(0, HERE)
from engine.report import Ctx
from engine.rules import callsigs
ctx = Ctx('C00', 'quick')
cur = callsigs.current(ctx)
out = {caller: {callee_: [b for b, _ in sites] for callee_, sites in by.items()} for caller, by in cur.items()}
json.dump(out, open(callsigs.REF, 'w'), indent=0, sort_keys=True)
print(sum(len(s) for by in out.values() for s in by.values()), 'call sites')
# loop exits reference
out = {}
for m, q, f in ctx.repo.functions():
    if m.name in ('cencoding', 'speedups'):
        continue
    le = callsigs.loop_exits(f)
    if le:
        out['%s.%s' % (m.name, q)] = le
json.dump(out, open(callsigs.LOOPEXITS_REF, 'w'), indent=0, sort_keys=True)
print(sum(len(v) for v in out.values()), 'loop exits in', len(out), 'functions')
# sibling arms reference (pairs with token similarity >= 0.6)
out = {}
for m, q, f in ctx.repo.functions():
    if m.name in ('cencoding', 'speedups'):
        continue
    d = {t: diff for t, ratio, diff, node in callsigs.sibling_pairs(f) if ratio >= 0.6}
    if d:
        out['%s.%s' % (m.name, q)] = d
json.dump(out, open(callsigs.SIBLINGS_REF, 'w'), indent=0, sort_keys=True)
print(sum(len(v) for v in out.values()), 'sibling pairs in', len(out), 'functions')
# if / elif chain reference
out = {}
for m, q, f in ctx.repo.functions():
    if m.name in ('cencoding', 'speedups'):
        continue
    d = callsigs.if_chain_pairs(f)
    if d:
        out['%s.%s' % (m.name, q)] = d
json.dump(out, open(callsigs.IFCHAINS_REF, 'w'), indent=0, sort_keys=True)
print(sum(len(v) for v in out.values()), 'if pairs in', len(out), 'functions')
# guard reference
out = {}
for m, q, f in ctx.repo.functions():
    if m.name in ('cencoding', 'speedups'):
        continue
    d = callsigs.guard_texts(f)
    if d:
        out['%s.%s' % (m.name, q)] = d
json.dump(out, open(callsigs.GUARDS_REF, 'w'), indent=0, sort_keys=True)
print(sum(len(v) for v in out.values()), 'guards in', len(out), 'functions')
# per-element loop stores reference
out = {}
for m, q, f in ctx.repo.functions():
    if m.name in ('cencoding', 'speedups'):
        continue
    d = callsigs.loop_stores(f)
    if d:
        out['%s.%s' % (m.name, q)] = d
json.dump(out, open(callsigs.LOOPSTORES_REF, 'w'), indent=0, sort_keys=True)
print(sum(len(v) for v in out.values()), 'loop stores in', len(out), 'functions')
# guards of call statements reference
out = {}
for m, q, f in ctx.repo.functions():
    if m.name in ('cencoding', 'speedups'):
        continue
    d = callsigs.call_stmt_guards(f)
    if d:
        out['%s.%s' % (m.name, q)] = d
json.dump(out, open(callsigs.STMTGUARDS_REF, 'w'), indent=0, sort_keys=True)
print(sum(len(v) for v in out.values()), 'call statements in', len(out), 'functions')
# name-guarded blocks reference
out = {}
for m, q, f in ctx.repo.functions():
    if m.name in ('cencoding', 'speedups'):
        continue
    d = callsigs.name_guards(f)
    if d:
        out['%s.%s' % (m.name, q)] = d
json.dump(out, open(callsigs.GUARDNAMES_REF, 'w'), indent=0, sort_keys=True)
print(sum(len(v) for v in out.values()), 'name-guarded blocks in', len(out), 'functions')
# fixed scratch sizes reference
out = {}
for m, q, f in ctx.repo.functions():
    if m.name in ('cencoding', 'speedups'):
        continue
    d = callsigs.scratch_sizes(f)
    if d:
        out['%s.%s' % (m.name, q)] = d
json.dump(out, open(callsigs.SCRATCH_REF, 'w'), indent=0, sort_keys=True)
print(sum(len(v) for v in out.values()), 'fixed-size scratch buffers in', len(out), 'functions')
# effective guard conditions and reach conditions of call statements (boolean formulas)
out, out2 = {}, {}
for m, q, f in ctx.repo.functions():
    if m.name in ('cencoding', 'speedups'):
        continue
    d = callsigs.guard_effective(f)
    if d:
        out['%s.%s' % (m.name, q)] = d
    d = callsigs.call_stmt_reach(f)
    if d:
        out2['%s.%s' % (m.name, q)] = d
json.dump(out, open(callsigs.GUARDEFF_REF, 'w'), indent=0, sort_keys=True)
json.dump(out2, open(callsigs.STMTREACH_REF, 'w'), indent=0, sort_keys=True)
print(sum(len(v) for v in out.values()), 'effective guards,', sum(len(v) for v in out2.values()), 'reach conditions')
