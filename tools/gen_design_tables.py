"""Regenerate the generated parts of DESIGN.md: the verdict column of the summary table (section 0), the table of
repaired defects (7.1) and the table of known findings (7.2) - all from known_findings.json, engine/registry.py and
tools/design_summary.json (the hand-written clause texts).  The parts sit between `<!-- gen:NAME -->` and
`<!-- /gen:NAME -->` markers; everything else in DESIGN.md is hand-written and left alone."""
import json, os, re, sys
HERE = os.path.dirname(os.path.dirname(os.path.abspath(__file__)))
sys.path.insert(0, HERE)
from engine import registry

K = json.load(open(os.path.join(HERE, 'known_findings.json')))
S = json.load(open(os.path.join(HERE, 'tools', 'design_summary.json')))


def esc(t):
    return t.replace('|', '\\|').replace('\n', ' ')


def fixed_rows():
    out = []
    for e in K['fixed']:
        m = re.match(r'fixed: property=(C\d\d) (\w+) (.*)$', e, re.S)
        pid, commit, what = m.groups()
        w = re.findall(r'witness/(\w+\.py)', what)
        what = re.sub(r'\s*\(witness/[^)]*\)\s*$', '', what)
        out.append((commit, pid, what, w))
    return out


def summary():
    fx = fixed_rows()
    lines = ['| id  | decided here (structural clause) | verdict on the tree | not decided (stated plainly) |',
             '|-----|----------------------------------|---------------------|------------------------------|']
    for pid in sorted(S):
        ks = sorted(f['id'] for f in K['findings'] if f['property'] == pid or pid in f.get('also', []))
        nfix = sum(1 for c, p, _, _ in fx if p == pid)
        v = ('known findings ' + ', '.join(ks)) if ks else 'holds'
        if nfix:
            v += '; %d repair%s filed under this property' % (nfix, '' if nfix == 1 else 's')
        if pid in registry.NOT_APPLICABLE:
            v = '**not applicable**'
        lines.append('| %s | %s | %s | %s |' % (pid, esc(S[pid][0]), v, esc(S[pid][1])))
    return '\n'.join(lines)


def fixed():
    rows = fixed_rows()
    lines = ['Generated from the `fixed:` entries of `known_findings.json` (%d repairs). Every row has a witness that fails on '
             'the pre-fix tree and passes now, a structural rule that flags the pre-fix construct, and (where the repair has a '
             'textual anchor) a reverting mutant in the thorough-tier self-test.' % len(rows), '',
             '| commit | property | defect | witness (under `witness/`) |', '|--------|----------|--------|---------|']
    for commit, pid, what, w in rows:
        lines.append('| %s | %s | %s | %s |' % (commit, pid, esc(what[:330]), ', '.join('`%s`' % x for x in w)))
    return '\n'.join(lines)


def findings():
    lines = ['| id | property | construct | why not repaired |', '|----|----------|-----------|------------------|']
    for f in K['findings']:
        also = (' (%s)' % ', '.join(f['also'])) if f.get('also') else ''
        lines.append('| %s | %s%s | %s | %s |' % (f['id'], f['property'], also, esc(f['what'][:420]), esc(f.get('why_not_repaired', '')[:260])))
    return '\n'.join(lines)


def counts():
    return ('%d properties are claimed (each **only for the clause in the second column**), %d %s not applicable. '
            '%d genuine defects were repaired (`fix:` commits in `/repo`, §7.1), %d are recorded as known findings (§7.2).'
            % (len(registry.CLAIMED), len(registry.NOT_APPLICABLE), 'is' if len(registry.NOT_APPLICABLE) == 1 else 'are',
               len(K['fixed']), len(K['findings'])))


def main():
    p = os.path.join(HERE, 'DESIGN.md')
    s = open(p).read()
    for name, fn in (('summary', summary), ('fixed', fixed), ('findings', findings), ('counts', counts)):
        pat = re.compile(r'(<!-- gen:%s -->\n).*?(\n<!-- /gen:%s -->)' % (name, name), re.S)
        if not pat.search(s):
            sys.exit('marker gen:%s missing in DESIGN.md' % name)
        s = pat.sub(lambda m: m.group(1) + fn() + m.group(2), s)
    open(p, 'w').write(s)
    print('DESIGN.md tables regenerated: %d claimed, %d repairs, %d findings' % (len(registry.CLAIMED), len(K['fixed']), len(K['findings'])))


if __name__ == '__main__':
    main()
