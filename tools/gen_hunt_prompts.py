"""Prepare a hunting round: fresh sub-agents look for inputs / histories for which the UNCHANGED tree violates a property.
One scratch worktree of /repo HEAD and one prompt per group of properties.  The prompt holds the property texts, the
working rules and a plain-words list of what is already known (so that the agent spends its time elsewhere); nothing
about the checks.
usage: gen_hunt_prompts.py /tmp/hunt2 G1=C01,C02 G2=C03,C11 ...
afterwards: one Agent per group: "Read the file <root>/prompts/<G>.txt and carry out exactly the task it describes. Work
only inside <root>/<G>. Do not read anything under /verif or /repo."; reports arrive in <root>/<G>/out/<n>/."""
import glob, json, os, re, shutil, subprocess, sys
HERE = os.path.dirname(os.path.dirname(os.path.abspath(__file__)))

T = '''You are working alone in a scratch git worktree of the open-source Python library dask/fastparquet at {wt} (a detached checkout; the compiled extension modules *.so are already copied in). Work ONLY inside {wt}. Do not read or touch /verif or /repo. Do NOT change any file under {wt}/fastparquet - you are looking at the code as it is.

Run Python as:   cd {wt} && PYTHONPATH={wt} /venv/bin/python <script>

Here are behavioural properties this library is supposed to satisfy:

{props}

YOUR TASK: find concrete inputs, option combinations, operation sequences or (for files written by other tools) hand-built files for which the UNCHANGED code violates one of these properties - silently wrong data or metadata, an unreadable file, a lost or duplicated row, a wrong refusal of valid input, a crash. Read the source (fastparquet/*.py and the Cython sources *.pyx, which you cannot rebuild but can read) looking for unremarkable places: option plumbing, rarely taken branches, conversions between units and types, boundary values (0, 1, empty, exactly a multiple of 8, 2**31, 2**63), unusual but legal names and values, second calls on the same handle, sequences of operations. Where a property is about files from other writers, build small files by hand from the Parquet specification (thrift compact protocol, RLE/bit-packed hybrid) rather than relying on another library.

The following are ALREADY KNOWN - do not report them again, look elsewhere:
{known}

For each NEW violation you can demonstrate, write:
  {wt}/out/<n>/witness.py  - standalone, deterministic script using temp dirs: prints what it observed and exits 1 when the violation shows, 0 otherwise
  {wt}/out/<n>/report.json - {{"property": "<id>", "title": "...", "input": "...what triggers it...", "observed": "...", "expected": "...", "root_cause": "file:function and the line(s) at fault", "suggested_fix": "...", "confidence": "high|medium|low"}}
Only report what you actually ran and saw (things inferred from reading only may be listed at the end of your final message, marked as unverified). Quality over quantity: 3 to 8 solid findings are ideal. Prefer silent wrong answers over loud refusals. Finish with a short summary message: one line per finding.'''


def main():
    root = sys.argv[1]
    groups = dict(a.split('=') for a in sys.argv[2:])
    props = {json.loads(l)['id']: json.loads(l) for l in open(os.path.join(HERE, 'properties.jsonl'))}
    k = json.load(open(os.path.join(HERE, 'known_findings.json')))
    os.makedirs(os.path.join(root, 'prompts'), exist_ok=True)
    for g, plist in groups.items():
        pids = plist.split(',')
        wt = os.path.join(root, g)
        if not os.path.exists(wt):
            subprocess.check_call(['git', '-C', '/repo', 'worktree', 'add', '-q', '--detach', wt, 'HEAD'])
            for so in glob.glob('/repo/fastparquet/*.so'):
                shutil.copy(so, os.path.join(wt, 'fastparquet'))
            os.makedirs(os.path.join(wt, 'out'), exist_ok=True)
        ptxt = '\n\n'.join('  [%s] %s\n  Statement: %s\n  Quantified over: %s' % (p, props[p]['title'], props[p]['statement'], props[p]['quantifier']['text'])
                           for p in pids)
        known = []
        for f in k['findings']:
            if f['property'] in pids or set(f.get('also', [])) & set(pids):
                known.append('- (open) ' + f['what'][:330])
        for e in k['fixed']:
            m = re.match(r'fixed: property=(C\d\d) \w+ (.*)$', e, re.S)
            if m and m.group(1) in pids:
                known.append('- (already repaired in this tree) ' + re.sub(r'\s*\(witness/[^)]*\)\s*$', '', m.group(2))[:220])
        open(os.path.join(root, 'prompts', g + '.txt'), 'w').write(T.format(wt=wt, props=ptxt, known='\n'.join(known)))
    print('prepared', len(groups), 'worktrees and prompts under', root)


if __name__ == '__main__':
    main()
