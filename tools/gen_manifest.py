"""Regenerate MANIFEST.json from engine/registry.py and validate it."""
import json, os, sys
HERE = os.path.dirname(os.path.dirname(os.path.abspath(__file__)))
sys.path.insert(0, HERE)
from engine import registry

PY = '/venv/bin/python'
props = [json.loads(l) for l in open(os.path.join(HERE, 'properties.jsonl'))]
ids = [p['id'] for p in props]
checks = []
for pid in ids:
    c = registry.CLAIMED.get(pid)
    if not c:
        continue
    checks.append({
        'property_id': pid,
        'quick_cmd': '%s -m engine.check %s --tier quick' % (PY, pid),
        'thorough_cmd': '%s -m engine.check %s --tier thorough' % (PY, pid),
        'evidence_file': 'evidence/%s.json' % pid,
        'replay_cmd_template': '%s -m engine.check %s --explain {path}' % (PY, pid),
        'engine': 'fpq-static',
        'level_claimed': {
            'category': 'other',
            'text': 'Static analysis of /repo source; every instance of the structural rules is discharged '
                    'or reported. DECIDES: ' + c['decides'] + ' NOT DECIDED: ' + c['not_decided'] + '.',
            'design_ref': c['design_ref'],
        },
        'level_note': c['note'],
        'technique': c['technique'],
    })
na = []
for pid in ids:
    if pid not in registry.CLAIMED:
        reason = registry.NOT_APPLICABLE.get(pid)
        if reason is None:
            reason = 'check not registered yet in this commit (static rules designed in DESIGN.md, being built)'
        na.append({'property_id': pid, 'reason': reason})
man = {
    'version': 1,
    'setup_cmd': '%s -m engine.selfcheck' % PY,
    'hooks': {
        'guard': 'FASTPARQUET_VERIF',
        'enable': 'no hooks: every check reads /repo source with ast/tokenize and never imports or runs fastparquet',
        'baseline_off_cmd': 'cd /repo && /venv/bin/python -m pytest -ra -q -p no:cacheprovider --timeout=900 --continue-on-collection-errors',
        'source_commits': [],
        'add_only': True,
    },
    'engines': [{
        'name': 'fpq-static', 'path': 'engine/',
        'serves_properties': [c['property_id'] for c in checks],
        'kind_free_text': 'repository-specific static analyser: Cython-subset front end, resolved call graph, '
                          'statement CFG with dominance/reaching definitions, IDL reader, constant folder, '
                          'per-property rule modules, mutant/twin self-tests',
    }],
    'checks': checks,
    'notes': 'Static analysis only (ast over .py and a Cython-subset front end over .pyx, parquet.thrift reader). '
             'Exit 0 held / 1 VIOLATION / 2 ANALYSIS-ERROR. Known findings live in known_findings.json. '
             'Repairs of genuine defects are fix: commits in /repo, listed as fixed: entries there.',
    'not_applicable': na,
}
json.dump(man, open(os.path.join(HERE, 'MANIFEST.json'), 'w'), indent=1)
try:
    import jsonschema
    jsonschema.validate(man, json.load(open('/root/.vp/MANIFEST.schema.json')))
    print('MANIFEST valid: %d checks, %d not applicable' % (len(checks), len(na)))
except ImportError:
    print('MANIFEST written (jsonschema not available for validation)')
