"""Freeze the reference binding sites of every function of the pinned tree (engine/refnames.json)."""
import ast, json, os, sys
HERE = os.path.dirname(os.path.dirname(os.path.abspath(__file__)))
sys.path.insert(0, HERE)
from engine import canon
from engine.model import PY_MODULES
out = {}
for m in PY_MODULES:
    tree = ast.parse(open('/repo/fastparquet/%s.py' % m).read())
    mg = canon.module_globals_of(tree)
    out[m] = {q: canon.binding_sites(f, mg) for q, f in canon.top_functions(tree)}
json.dump(out, open(canon.REF_PATH, 'w'), indent=0)
print(sum(len(v) for v in out.values()), 'functions')
shapes = {}
for m in PY_MODULES:
    tree = ast.parse(open('/repo/fastparquet/%s.py' % m).read())
    mg = canon.module_globals_of(tree)
    shapes[m] = {q: dict(canon.shape_of(f), skel=canon.skeleton(f, mg), else_n=canon.else_counts(f), temps=canon.ref_temps(f)) for q, f in canon.top_functions(tree)}
    shapes[m]['__module__'] = {'globals': sorted(mg)}
json.dump(shapes, open(canon.SHAPE_PATH, 'w'), indent=0)
print(sum(len(v['cmp']) + len(v['if']) for d in shapes.values() for q, v in d.items() if q != '__module__'), 'orientation facts')
