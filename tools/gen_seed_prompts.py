"""Prepare a round of held-out seeding: one scratch worktree of /repo HEAD per property under <root>/<PID>
and one prompt file <root>/prompts/<PID>.txt for a fresh sub-agent.  The prompt holds the property text, the
working rules, and one-line summaries of the changes earlier rounds already produced for that property (so the new
round explores other functions and mechanisms).  Nothing about the checks themselves is given to the agent.

usage: gen_seed_prompts.py /tmp/seed4 [PID ...]
afterwards: one Agent per PID with the prompt
   "Read the file <root>/prompts/<PID>.txt and carry out exactly the task it describes. Work only inside <root>/<PID>.
    Do not read anything under /verif or /repo."
then tools/heldout.py (set ROOT), tools/confirm_seeds_wave3.py (set paths / suffix), tools/seed_matrix.py, and
`git -C /repo worktree remove --force <root>/<PID>` for every worktree."""
import glob, json, os, re, shutil, subprocess, sys

T = '''You are working alone in a scratch git worktree of the open-source Python library dask/fastparquet at {wt} (a detached checkout; the compiled extension modules *.so are already copied in). Work ONLY inside {wt}. Do not read or touch /verif or /repo. Cython is NOT installed, so you cannot rebuild the .pyx files: change only .py files under {wt}/fastparquet/ (not the tests, not test-data).

Run Python as:   cd {wt} && PYTHONPATH={wt} /venv/bin/python <script>
Run the suite as: cd {wt} && PYTHONPATH={wt} /venv/bin/python -m pytest -q -p no:cacheprovider --timeout=900 fastparquet --junitxml={wt}/out/run.xml 2>&1 | tail -5
On the unchanged tree some tests pass and some fail (pre-existing failures of this offline environment). Before changing anything, run the suite once and save the per-test outcomes so you can compare precisely later (compare test ids, not counts).

Here is a behavioural property that this library is supposed to satisfy:

  Title: {title}
  Statement: {statement}
  Quantified over: {quant}

YOUR TASK: produce 3 independent source changes ("seeded defects"), each a separate patch against the unchanged HEAD, such that each one BREAKS the property above while
  (a) the package still imports and
  (b) the test suite outcome is unchanged: exactly the same tests pass and fail as on the unchanged tree.
Each change must be realistic - the kind of slip a maintainer makes in a refactor, optimisation or clean-up (an off-by-one, a dropped guard, swapped or wrong variable, reordered steps, a missing copy, a wrong mode/flag/constant, an edit to one of two sibling code paths only...) - and small (a few lines). Each must need something SPECIFIC to manifest: a particular interleaving, a crash or fault at a particular point, a multi-step sequence of operations, an unusual input or option combination, or two cooperating sites that each look fine alone - NOT something that ordinary use would expose at once. The three changes should touch different functions / mechanisms where possible. Do not simply delete a feature or make something raise unconditionally; do not add dead code, comments mentioning the defect, or environment-variable switches.

{previous}
Also avoid these mechanisms, which earlier rounds used often: dropping a keyword argument at a call site; replacing `continue` by `break`; removing a `copy(...)` of the file metadata; `x = x or default` reordering; `is True` tests; turning an `if` into an `elif`; moving `fmd.num_rows = ...` under a condition; moving or removing `truncate()`; changing which length bounds a decoder call. Prefer places that look unremarkable: helper functions, conversions between units or types, bookkeeping of counts and offsets, the less-travelled branch of an if/else, error paths, option plumbing between layers.
{extra}
For each change n in 1..3 write these files:
  {wt}/out/<n>/patch.diff  - output of `git diff` against HEAD (must apply with `git apply` from the worktree root)
  {wt}/out/<n>/demo.py     - a standalone script that exits 0 and prints PASS on the unchanged tree, and exits non-zero and prints FAIL (with what was observed) when the patch is applied; it must use temp dirs and clean up; it must be deterministic
  {wt}/out/<n>/meta.json   - {{"property": "{pid}", "summary": "...what was changed...", "needs_to_manifest": "...", "files_touched": [...], "why_tests_miss_it": "...", "commands_run": [...]}}

Verify each change yourself: apply the patch, run demo.py (must FAIL), run the full suite (same pass/fail sets as baseline - compare the ids), then revert with `git checkout -- .` and run demo.py again (must PASS). If a candidate changes any test outcome, discard it and find another. Leave the worktree clean (no patch applied; only out/ untracked) when you finish.

Finish with a short report: for each change one line (file:function, what, how it manifests) and whether verification succeeded. If you notice that the UNCHANGED tree already violates the property for some input, say so in the report (one line each) but do not use it as a seed.'''

HERE = os.path.dirname(os.path.dirname(os.path.abspath(__file__)))
# round 6: ask for refactor-shaped changes as well (set EXTRA=refactor)
EXTRAS = {'refactor': '''
At least ONE of your three changes must have the shape of a small refactor rather than a one-token slip: rewriting a loop as a comprehension (or back), extracting a few lines into a helper, merging two branches that look alike, replacing an idiom by an equivalent-looking one (a different numpy/pandas call, a different way to test for None / emptiness, integer vs true division, a different slicing form), hoisting a computation out of a loop, or reordering independent-looking statements - where the result is subtly NOT equivalent for some inputs. It must still read like an honest clean-up.
''',
          # round 7: every change hidden inside an honest-looking clean-up of the kinds a canonicaliser normalises
          'disguised': '''
ALL THREE changes must be DISGUISED AS CLEAN-UPS: each patch should read like a behaviour-preserving refactor of 8 to 40 lines in which exactly one detail is subtly NOT equivalent. Use three different disguises out of these: (1) a temporary inlined or introduced, where the moved expression is now evaluated at a different moment (after a value it reads was changed) or a different number of times; (2) nested ifs flattened / a guard clause with `continue` or an early `return`, where one case now takes the other path; (3) a loop turned into a comprehension / `any` / `all` / `next` / `itertools.accumulate` / `zip` (or back), with a slightly different condition, start value, or length; (4) a few lines extracted into a helper used from two places that differed in a detail, or with two arguments of the same type swapped; (5) an if/elif chain replaced by a lookup table (or back) with one entry wrong, missing or merged; (6) `%` formatting turned into f-strings (or back) where the text differs for some value; (7) two similar branches merged that were not identical; (8) renaming locals where one use keeps the old (still existing) name. The rest of each patch must be a genuinely equivalent rewrite, so that a reviewer (or a tool that normalises refactors away) has to find the one detail.
'''}


def main():
    root = sys.argv[1]
    props = {json.loads(l)['id']: json.loads(l) for l in open(os.path.join(HERE, 'properties.jsonl'))}
    pids = sys.argv[2:] or [p for p in sorted(props) if p not in ('C12', 'C15')]
    os.makedirs(os.path.join(root, 'prompts'), exist_ok=True)
    for pid in pids:
        wt = os.path.join(root, pid)
        if not os.path.exists(wt):
            subprocess.check_call(['git', '-C', '/repo', 'worktree', 'add', '-q', '--detach', wt, 'HEAD'])
            for so in glob.glob('/repo/fastparquet/*.so'):
                shutil.copy(so, os.path.join(wt, 'fastparquet'))
            os.makedirs(os.path.join(wt, 'out'), exist_ok=True)
        prev = []
        for d in sorted(glob.glob(os.path.join(HERE, 'seeded', pid + '-*'))):
            m = json.load(open(os.path.join(d, 'meta.json')))
            prev.append('- ' + re.sub(r'\s+', ' ', m.get('summary', ''))[:240] + ' (files: %s)' % ', '.join(m.get('files_touched', [])))
        previous = ''
        if prev:
            previous = ('IMPORTANT - earlier rounds already produced the following changes for this property. Do NOT repeat them, '
                        'nor close variants of them (same line, same mechanism); find changes in OTHER functions or OTHER '
                        'mechanisms that the property depends on:\n' + '\n'.join(prev) + '\n')
        p = props[pid]
        open(os.path.join(root, 'prompts', pid + '.txt'), 'w').write(T.format(
            wt=wt, title=p['title'], statement=p['statement'], quant=p['quantifier']['text'], pid=pid, previous=previous,
            extra=EXTRAS.get(os.environ.get('EXTRA', ''), '')))
    print('prepared', len(pids), 'worktrees and prompts under', root)


if __name__ == '__main__':
    main()
