"""Run all checks against held-out seeds under /tmp/seed2/<PID>/out/<n>/patch.diff"""
import glob, json, os, subprocess, sys, tempfile, shutil
HERE = os.path.dirname(os.path.dirname(os.path.abspath(__file__)))
PIDS = ['C%02d' % i for i in range(1, 21)]
for pid in sys.argv[1:]:
    for sd in sorted(glob.glob('/tmp/seed7/%s/out/[0-9]*' % pid)):
        patch = os.path.join(sd, 'patch.diff')
        if not os.path.exists(patch):
            continue
        d = tempfile.mkdtemp(prefix='fpq_ho_'); r = os.path.join(d, 'r'); os.makedirs(r)
        try:
            subprocess.check_call('cd /repo && git ls-files -z fastparquet | xargs -0 cp --parents -t %s' % r, shell=True)
            p = subprocess.run(['git', 'apply', '--unsafe-paths', '--directory=' + r, patch], cwd='/', capture_output=True, text=True)
            if p.returncode:
                print(pid, os.path.basename(sd), 'PATCH-DOES-NOT-APPLY'); continue
            caught = {}
            for c in PIDS:
                q = subprocess.run(['/venv/bin/python', '-m', 'engine.check', c, '--repo', r, '--no-evidence', '--json'], cwd=HERE, capture_output=True, text=True)
                if q.returncode:
                    keys = []
                    for l in q.stdout.split('\n'):
                        if l.startswith('RESULT-JSON '): keys = json.loads(l[12:])['violations']
                        if l.startswith('ANALYSIS-ERROR'): keys = ['ERR ' + l[15:120]]
                    caught[c] = ('E' if q.returncode == 2 else '') + ','.join(sorted({k.split(':')[0] for k in keys}))
            summ = json.load(open(os.path.join(sd, 'meta.json'))).get('summary', '')[:110] if os.path.exists(os.path.join(sd, 'meta.json')) else ''
            print('%s-%s own=%s %s | %s' % (pid, os.path.basename(sd), 'YES' if pid in caught and not caught[pid].startswith('E') else 'no ', caught, summ))
        finally:
            shutil.rmtree(d)
