#!/bin/sh
# usage: tools/pinned.sh [tree]   - run the pinned test command in a tree (default /repo) and list the tests of
# BASELINE.json's stable_pass set that did not pass.
T=${1:-/repo}
X=$(mktemp /tmp/pinned.XXXXXX.xml)
(cd $T && /venv/bin/python -m pytest -q -p no:cacheprovider --timeout=900 --continue-on-collection-errors --junitxml=$X 2>&1 | tail -1)
/venv/bin/python - $X <<'PY'
import json, sys, xml.etree.ElementTree as ET
b = json.load(open('/root/.vp/BASELINE.json'))
ok = set()
for tc in ET.parse(sys.argv[1]).getroot().iter('testcase'):
    if not [c for c in tc if c.tag in ('failure', 'error', 'skipped')]:
        ok.add(tc.get('classname') + '::' + tc.get('name'))
miss = [t for t in b['stable_pass'] if t not in ok]
print(len(b['stable_pass']), 'pinned; not passing:', miss)
sys.exit(1 if miss else 0)
PY
rc=$?; rm -f $X; exit $rc
