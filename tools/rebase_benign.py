"""Re-base benign patches that no longer apply after repairs changed neighbouring lines: `patch -p1 --fuzz=3` on a scratch
copy of HEAD, package must import and the pinned suite must still pass; the regenerated diff replaces patch.diff.
usage: rebase_benign.py <name> ..."""
import glob, json, os, shutil, subprocess, sys, tempfile
HERE = os.path.dirname(os.path.dirname(os.path.abspath(__file__)))
for name in sys.argv[1:]:
    bd = os.path.join(HERE, 'benign', name)
    wt = tempfile.mkdtemp(prefix='rbb_', dir='/tmp'); os.rmdir(wt)
    subprocess.check_call(['git', '-C', '/repo', 'worktree', 'add', '-q', '--detach', wt, 'HEAD'])
    try:
        for so in glob.glob('/repo/fastparquet/*.so'):
            shutil.copy(so, wt + '/fastparquet')
        p = subprocess.run('patch -p1 --fuzz=3 --no-backup-if-mismatch < %s' % os.path.join(bd, 'patch.diff'), cwd=wt, shell=True, capture_output=True, text=True)
        if p.returncode:
            print(name, 'cannot be re-based:', p.stdout.strip()[-200:]); continue
        imp = subprocess.run(['/venv/bin/python', '-c', 'import fastparquet'], cwd=wt, env=dict(os.environ, PYTHONPATH=wt), capture_output=True).returncode
        t = subprocess.run(['sh', os.path.join(HERE, 'tools', 'pinned.sh'), wt], capture_output=True, text=True)
        if imp or t.returncode:
            print(name, 'import rc', imp, 'pinned:', t.stdout.strip()[-200:]); continue
        diff = subprocess.run('git diff -- fastparquet', cwd=wt, shell=True, capture_output=True, text=True).stdout
        open(os.path.join(bd, 'patch.diff'), 'w').write(diff)
        m = json.load(open(os.path.join(bd, 'meta.json')))
        m['rebased'] = 'patch context regenerated on /repo %s after repairs changed neighbouring lines (same edit; import and pinned suite re-run)' % \
            subprocess.check_output(['git', '-C', '/repo', 'log', '--format=%h', '-1'], text=True).strip()
        json.dump(m, open(os.path.join(bd, 'meta.json'), 'w'), indent=1)
        print(name, 're-based')
    finally:
        subprocess.call(['git', '-C', '/repo', 'worktree', 'remove', '--force', wt])
        shutil.rmtree(wt, ignore_errors=True)
