"""Re-base kept seed patches that no longer apply after a fix commit changed neighbouring lines.
For each seed: fresh scratch worktree of /repo HEAD, `patch -p1 --fuzz=3`; on success the demo must pass on the clean
tree and fail on the patched one (the seed is still a seed); the regenerated `git diff` replaces patch.diff and
meta.json gets a `rebased` note.  Seeds that cannot be re-based are listed for manual treatment.
usage: rebase_seed.py <seed-name> ..."""
import glob, json, os, shutil, subprocess, sys, tempfile
HERE = os.path.dirname(os.path.dirname(os.path.abspath(__file__)))
PY = '/venv/bin/python'


def sh(cmd, cwd, env=None):
    e = dict(os.environ); e.update(env or {})
    p = subprocess.run(cmd, cwd=cwd, env=e, capture_output=True, text=True, shell=isinstance(cmd, str), timeout=900)
    return p.returncode, p.stdout + p.stderr


def rebase(name):
    sd = os.path.join(HERE, 'seeded', name)
    wt = tempfile.mkdtemp(prefix='rebase_%s_' % name, dir='/tmp'); os.rmdir(wt)
    try:
        subprocess.check_call(['git', '-C', '/repo', 'worktree', 'add', '-q', '--detach', wt, 'HEAD'])
        for so in glob.glob('/repo/fastparquet/*.so'):
            shutil.copy(so, os.path.join(wt, 'fastparquet'))
        demo = os.path.join(wt, '_demo_seed.py')
        txt = open(os.path.join(sd, 'demo.py')).read()
        for root in ('/tmp/seed/', '/tmp/seed2/', '/tmp/seed3/', '/tmp/seed4/', '/tmp/seed5/', '/tmp/seed6/', '/tmp/seed7/'):
            pid = name.split('-')[0]
            txt = txt.replace(root + pid, wt)
        open(demo, 'w').write(txt)
        env = {'PYTHONPATH': wt}
        rc0, _ = sh([PY, demo], wt, env)
        rc, out = sh('patch -p1 --fuzz=3 --no-backup-if-mismatch -i %s' % os.path.join(sd, 'patch.diff'), wt)
        if rc:
            return name, 'cannot-rebase', out[-300:]
        sh('find . -name "*.orig" -delete; find . -name "*.rej" -delete', wt)
        rci, _ = sh([PY, '-c', 'import fastparquet'], wt, env)
        if rci:
            return name, 'patched-package-does-not-import (rebase by hand)', ''
        rc1, o1 = sh([PY, demo], wt, env)
        rcd, diff = sh('git diff -- fastparquet', wt)
        if rc0 != 0 or rc1 == 0:
            return name, 'demo-no-longer-discriminates (clean rc=%d patched rc=%d)' % (rc0, rc1), o1[-300:]
        open(os.path.join(sd, 'patch.diff'), 'w').write(diff)
        mp = os.path.join(sd, 'meta.json')
        m = json.load(open(mp))
        head = subprocess.check_output(['git', '-C', '/repo', 'rev-parse', '--short', 'HEAD'], text=True).strip()
        m['rebased'] = (m.get('rebased', '') + ' | ' if m.get('rebased') else '') + \
            'patch context regenerated on /repo %s after fix commits changed neighbouring lines (same edit; demo re-run: passes clean, fails patched)' % head
        json.dump(m, open(mp, 'w'), indent=1)
        return name, 'rebased', ''
    finally:
        subprocess.run(['git', '-C', '/repo', 'worktree', 'remove', '--force', wt], capture_output=True)
        shutil.rmtree(wt, ignore_errors=True)


if __name__ == '__main__':
    from concurrent.futures import ThreadPoolExecutor
    with ThreadPoolExecutor(8) as ex:
        for r in ex.map(rebase, sys.argv[1:]):
            print(*r)
