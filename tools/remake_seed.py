"""Re-make a kept seed by hand after repairs changed the lines it touches: apply an edit function to a scratch worktree
of /repo HEAD, check that the package imports and that the seed's demo passes on the clean tree and fails with the
edit, then store the new diff.  usage (from python): remake(name, edit) where edit(worktree_path) modifies files."""
import glob, json, os, shutil, subprocess, tempfile
ROOTS = ('/tmp/seed/', '/tmp/seed2/', '/tmp/seed3/', '/tmp/seed4/', '/tmp/seed5/', '/tmp/seed6/')


def sub(path, a, b, count=1):
    s = open(path).read()
    assert s.count(a) == count, (path, a[:60], s.count(a))
    open(path, 'w').write(s.replace(a, b))


def remake(name, edit):
    sd = '/verif/seeded/' + name
    wt = tempfile.mkdtemp(prefix='mr_', dir='/tmp'); os.rmdir(wt)
    subprocess.check_call(['git', '-C', '/repo', 'worktree', 'add', '-q', '--detach', wt, 'HEAD'])
    try:
        for so in glob.glob('/repo/fastparquet/*.so'):
            shutil.copy(so, wt + '/fastparquet')
        pid = name.split('-')[0]
        txt = open(sd + '/demo.py').read()
        for root in ROOTS:
            txt = txt.replace(root + pid, wt)
        open(wt + '/_demo.py', 'w').write(txt)
        env = dict(os.environ, PYTHONPATH=wt)
        rc0 = subprocess.run(['/venv/bin/python', '_demo.py'], cwd=wt, env=env, capture_output=True).returncode
        edit(wt)
        imp = subprocess.run(['/venv/bin/python', '-c', 'import fastparquet'], cwd=wt, env=env, capture_output=True).returncode
        rc1 = subprocess.run(['/venv/bin/python', '_demo.py'], cwd=wt, env=env, capture_output=True, text=True)
        diff = subprocess.run('git diff -- fastparquet', cwd=wt, shell=True, capture_output=True, text=True).stdout
        ok = rc0 == 0 and imp == 0 and rc1.returncode != 0
        print(name, 'clean rc', rc0, 'import rc', imp, 'patched rc', rc1.returncode, 'KEPT' if ok else 'NOT A SEED ANY MORE')
        if ok:
            open(sd + '/patch.diff', 'w').write(diff)
            m = json.load(open(sd + '/meta.json'))
            m['rebased'] = 're-made by hand on %s after later repairs changed the lines it touches; same slip, demo re-verified' % \
                subprocess.check_output(['git', '-C', '/repo', 'log', '--format=%h', '-1'], text=True).strip()
            json.dump(m, open(sd + '/meta.json', 'w'), indent=1)
        return ok
    finally:
        subprocess.call(['git', '-C', '/repo', 'worktree', 'remove', '--force', wt])
        shutil.rmtree(wt, ignore_errors=True)
