"""Re-verify that every kept seed is still a seed on /repo's current HEAD: its demo passes on the clean tree and fails
with the patch applied.  (A repair can make a seeded change harmless without touching its lines - the patch still
applies, but it no longer breaks the property; such a seed must be dropped and any rule that still fires on it recast.)
Scratch worktrees under /tmp, removed afterwards.  usage: reverify_seeds.py [seed ...]"""
import glob, json, os, shutil, subprocess, sys, tempfile
from concurrent.futures import ThreadPoolExecutor
HERE = os.path.dirname(os.path.dirname(os.path.abspath(__file__)))
PY = '/venv/bin/python'
ROOTS = ('/tmp/seed/', '/tmp/seed2/', '/tmp/seed3/', '/tmp/seed4/', '/tmp/seed5/', '/tmp/seed6/')


def sh(cmd, cwd, env=None, timeout=600):
    e = dict(os.environ); e.update(env or {})
    try:
        p = subprocess.run(cmd, cwd=cwd, env=e, capture_output=True, text=True, shell=isinstance(cmd, str), timeout=timeout)
        return p.returncode, p.stdout + p.stderr
    except subprocess.TimeoutExpired:
        return 124, 'timeout'


def one(name):
    sd = os.path.join(HERE, 'seeded', name)
    wt = tempfile.mkdtemp(prefix='rv_%s_' % name, dir='/tmp'); os.rmdir(wt)
    try:
        subprocess.check_call(['git', '-C', '/repo', 'worktree', 'add', '-q', '--detach', wt, 'HEAD'])
        for so in glob.glob('/repo/fastparquet/*.so'):
            shutil.copy(so, os.path.join(wt, 'fastparquet'))
        pid = name.split('-')[0]
        txt = open(os.path.join(sd, 'demo.py')).read()
        for root in ROOTS:
            txt = txt.replace(root + pid, wt)
        demo = os.path.join(wt, '_demo_seed.py')
        open(demo, 'w').write(txt)
        env = {'PYTHONPATH': wt}
        rc0, o0 = sh([PY, demo], wt, env)
        rc, out = sh(['git', 'apply', os.path.join(sd, 'patch.diff')], wt)
        if rc:
            return name, 'NOAPPLY', out[-200:]
        rci, _ = sh([PY, '-c', 'import fastparquet'], wt, env)
        if rci:
            return name, 'PATCHED-PACKAGE-DOES-NOT-IMPORT', ''
        rc1, o1 = sh([PY, demo], wt, env)
        if rc0 != 0:
            return name, 'DEMO-FAILS-ON-CLEAN-TREE', o0[-300:]
        if rc1 == 0:
            return name, 'NO-LONGER-DISCRIMINATES', o1[-200:]
        return name, 'ok', ''
    finally:
        subprocess.call(['git', '-C', '/repo', 'worktree', 'remove', '--force', wt], stderr=subprocess.DEVNULL)
        shutil.rmtree(wt, ignore_errors=True)


if __name__ == '__main__':
    names = sys.argv[1:] or sorted(os.path.basename(d) for d in glob.glob(os.path.join(HERE, 'seeded', 'C*-*')))
    with ThreadPoolExecutor(int(os.environ.get('JOBS', '8'))) as ex:
        res = list(ex.map(one, names))
    subprocess.call(['git', '-C', '/repo', 'worktree', 'prune'])
    bad = [r for r in res if r[1] != 'ok']
    for r in bad:
        print('%-8s %s %s' % (r[0], r[1], r[2].replace('\n', ' | ')[-220:]))
    print('seeds re-verified: %d, still discriminating: %d' % (len(res), len(res) - len(bad)))
    sys.exit(1 if bad else 0)
