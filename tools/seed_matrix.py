"""Run every check on a scratch copy of /repo's package with each seeded patch applied.
Writes seeded/MATRIX.json and prints a table.  Never touches /repo."""
import json, os, shutil, subprocess, sys, tempfile, glob
from concurrent.futures import ThreadPoolExecutor
HERE = os.path.dirname(os.path.dirname(os.path.abspath(__file__)))
PIDS = ['C%02d' % i for i in range(1, 21)]

def one(seed_dir):
    name = os.path.basename(seed_dir)
    d = tempfile.mkdtemp(prefix='fpq_mx_')
    r = os.path.join(d, 'r'); os.makedirs(r)
    try:
        subprocess.check_call('cd /repo && git ls-files -z fastparquet | xargs -0 cp --parents -t %s' % r, shell=True)
        p = subprocess.run(['git', 'apply', '--unsafe-paths', '--directory=' + r, os.path.join(seed_dir, 'patch.diff')],
                           cwd='/', capture_output=True, text=True)
        if p.returncode:
            return name, {'_apply': 'FAILED'}
        res = {}
        for pid in PIDS:
            q = subprocess.run(['/venv/bin/python', '-m', 'engine.check', pid, '--repo', r, '--no-evidence', '--json'],
                               cwd=HERE, capture_output=True, text=True)
            keys = []
            for l in q.stdout.split('\n'):
                if l.startswith('RESULT-JSON '):
                    keys = json.loads(l[12:])['violations']
            res[pid] = {'exit': q.returncode, 'rules': sorted({k.split(':')[0] for k in keys})}
        return name, res
    finally:
        shutil.rmtree(d)

if __name__ == '__main__':
    seeds = sorted(glob.glob(os.path.join(HERE, 'seeded', 'C*-*')))
    with ThreadPoolExecutor(14) as ex:
        out = dict(ex.map(one, seeds))
    json.dump(out, open(os.path.join(HERE, 'seeded', 'MATRIX.json'), 'w'), indent=1)
    missed = []
    for name in sorted(out):
        own = name.split('-')[0]
        r = out[name]
        if '_apply' in r:
            print('%-8s patch does not apply' % name); continue
        caught = {p: v['rules'] for p, v in r.items() if v['exit'] == 1}
        errs = [p for p, v in r.items() if v['exit'] == 2]
        own_hit = own in caught
        print('%-8s own=%s caught_by=%s%s' % (name, 'YES' if own_hit else 'no ', {p: ','.join(v) for p, v in caught.items()},
                                              ' ANALYSIS-ERROR in %s' % errs if errs else ''))
        if not caught:
            missed.append(name)
    print('seeds: %d, caught by some check: %d, caught by own property\'s check: %d, missed: %s' % (
        len(out), sum(1 for n in out if any(v.get('exit') == 1 for v in out[n].values() if isinstance(v, dict))),
        sum(1 for n in out if isinstance(out[n].get(n.split('-')[0]), dict) and out[n][n.split('-')[0]]['exit'] == 1), missed))
