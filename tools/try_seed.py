"""Apply a seeded patch to a scratch copy of /repo's package sources and run checks on it.
usage: try_seed.py <patch.diff> <PID> [<PID> ...]     (never touches /repo)"""
import os, shutil, subprocess, sys, tempfile
HERE = os.path.dirname(os.path.dirname(os.path.abspath(__file__)))

def scratch_copy():
    d = tempfile.mkdtemp(prefix='fpq_scratch_')
    subprocess.check_call(['git', '-C', '/repo', 'worktree', 'add', '-q', '--detach', os.path.join(d, 'r'), 'HEAD'])
    return d

def main():
    patch = os.path.abspath(sys.argv[1])
    pids = sys.argv[2:]
    d = tempfile.mkdtemp(prefix='fpq_scratch_')
    r = os.path.join(d, 'r')
    os.makedirs(r)
    # copy the working tree (tracked files of the package are enough for the analysis)
    subprocess.check_call('cd /repo && git ls-files -z fastparquet | xargs -0 cp --parents -t %s' % r, shell=True)
    try:
        p = subprocess.run(['git', 'apply', '--unsafe-paths', '--directory=' + r, patch], cwd='/', capture_output=True, text=True)
        if p.returncode:
            p = subprocess.run(['patch', '-p1', '-d', r, '-i', patch], capture_output=True, text=True)
            if p.returncode:
                print('PATCH-DOES-NOT-APPLY', p.stdout[-300:], p.stderr[-300:])
                return 3
        res = {}
        for pid in pids:
            q = subprocess.run(['/venv/bin/python', '-m', 'engine.check', pid, '--repo', r, '--no-evidence'],
                               cwd=HERE, capture_output=True, text=True)
            res[pid] = q.returncode
            lines = [l for l in q.stdout.split('\n') if l.startswith(('  violated', 'VIOLATION', 'ANALYSIS'))]
            print('%s exit=%d %s' % (pid, q.returncode, ' | '.join(l.strip()[:230] for l in lines[:3])))
        return 0
    finally:
        shutil.rmtree(d)

if __name__ == '__main__':
    sys.exit(main())
