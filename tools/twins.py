"""Behaviour-preserving twins: for every function of the analysed .py modules, rename all of its
local variables consistently (suffix _tw) and shift every line; run all checks on the twin.
A check that reports a VIOLATION on a twin is a false alarm (brittle rule); exit 2 (ANALYSIS-ERROR)
is the acceptable way of saying "I no longer recognise this construct".
usage: twins.py [module ...]      writes /tmp/twins_result.json"""
import ast, builtins, json, os, shutil, subprocess, sys, tempfile
from concurrent.futures import ThreadPoolExecutor
HERE = os.path.dirname(os.path.dirname(os.path.abspath(__file__)))
PIDS = ['C%02d' % i for i in range(1, 21)]
MODS = ['api', 'writer', 'core', 'util', 'schema', 'converted_types', 'encoding', 'compression', 'dataframe']


sys.path.insert(0, HERE)
from engine.twin import make_twin


def run_twin(job):
    mod, qual = job
    d = tempfile.mkdtemp(prefix='fpq_tw_')
    r = os.path.join(d, 'r'); os.makedirs(r)
    try:
        subprocess.check_call('cd /repo && git ls-files -z fastparquet | xargs -0 cp --parents -t %s' % r, shell=True)
        p = os.path.join(r, 'fastparquet', mod + '.py')
        txt, n = make_twin(p, qual)
        if txt is None:
            return (mod, qual), None
        open(p, 'w').write(txt)
        # the twin must still compile
        compile(txt, p, 'exec')
        res = {}
        for pid in PIDS:
            q = subprocess.run(['/venv/bin/python', '-m', 'engine.check', pid, '--repo', r, '--no-evidence', '--json'],
                               cwd=HERE, capture_output=True, text=True)
            if q.returncode:
                keys = []
                for l in q.stdout.split('\n'):
                    if l.startswith('RESULT-JSON '):
                        keys = json.loads(l[12:])['violations']
                    if l.startswith('ANALYSIS-ERROR'):
                        keys = [l[:200]]
                res[pid] = {'exit': q.returncode, 'keys': keys[:6]}
        return (mod, qual), {'renamed': n, 'alarms': res}
    finally:
        shutil.rmtree(d)


if __name__ == '__main__':
    mods = sys.argv[1:] or MODS
    jobs = []
    for mod in mods:
        tree = ast.parse(open('/repo/fastparquet/%s.py' % mod).read())
        def walk(body, prefix):
            for st in body:
                if isinstance(st, ast.FunctionDef):
                    jobs.append((mod, prefix + st.name))
                    walk(st.body, prefix + st.name + '.')
                elif isinstance(st, ast.ClassDef):
                    walk(st.body, prefix + st.name + '.')
        walk(tree.body, '')
    with ThreadPoolExecutor(14) as ex:
        out = list(ex.map(run_twin, jobs))
    res = {'%s.%s' % k: v for k, v in out if v is not None}
    json.dump(res, open('/tmp/twins_result.json', 'w'), indent=1)
    nviol = 0
    for k, v in sorted(res.items()):
        for pid, a in v['alarms'].items():
            tag = 'VIOLATION' if a['exit'] == 1 else 'analysis-error'
            if a['exit'] == 1:
                nviol += 1
            print('%-45s %s %s %s' % (k, pid, tag, '; '.join(x[:90] for x in a['keys'][:3])))
    print('twins: %d, functions with any alarm: %d, (twin, check) pairs with VIOLATION: %d' % (
        len(res), sum(1 for v in res.values() if v['alarms']), nviol))
