"""Behaviour-preserving twins: for every function of the analysed .py modules, rename all of its
local variables consistently (suffix _tw) and shift every line; run all checks on the twin.
A check that reports a VIOLATION on a twin is a false alarm (brittle rule); exit 2 (ANALYSIS-ERROR)
is the acceptable way of saying "I no longer recognise this construct".
usage: twins.py [module ...]      writes /tmp/twins_result.json"""
import ast, builtins, json, os, shutil, subprocess, sys, tempfile
from concurrent.futures import ThreadPoolExecutor
HERE = os.path.dirname(os.path.dirname(os.path.abspath(__file__)))
PIDS = ['C%02d' % i for i in range(1, 21) if i != 15]
MODS = ['api', 'writer', 'core', 'util', 'schema', 'converted_types', 'encoding', 'compression', 'dataframe']


class Renamer(ast.NodeTransformer):
    def __init__(self, names):
        self.names = names

    def visit_Name(self, node):
        if node.id in self.names:
            node.id = node.id + '_tw'
        return node

    def visit_ExceptHandler(self, node):
        if node.name in self.names:
            node.name = node.name + '_tw'
        self.generic_visit(node)
        return node


def locals_of(func, module_globals):
    params = {a.arg for a in func.args.posonlyargs + func.args.args + func.args.kwonlyargs}
    if func.args.vararg: params.add(func.args.vararg.arg)
    if func.args.kwarg: params.add(func.args.kwarg.arg)
    assigned, declared = set(), set()
    nested_params = set()
    for n in ast.walk(func):
        if isinstance(n, ast.Name) and isinstance(n.ctx, (ast.Store, ast.Del)):
            assigned.add(n.id)
        elif isinstance(n, (ast.Global, ast.Nonlocal)):
            declared |= set(n.names)
        elif isinstance(n, ast.ExceptHandler) and n.name:
            assigned.add(n.name)
        elif isinstance(n, (ast.FunctionDef, ast.Lambda)) and n is not func:
            a = n.args
            nested_params |= {x.arg for x in a.posonlyargs + a.args + a.kwonlyargs}
            if isinstance(n, ast.FunctionDef):
                declared.add(n.name)       # keep nested function names (qualnames are anchors)
        elif isinstance(n, (ast.Import, ast.ImportFrom)):
            for al in n.names:
                declared.add((al.asname or al.name).split('.')[0])
    return assigned - params - declared - nested_params - module_globals - set(dir(builtins))


def make_twin(src_path, qual):
    tree = ast.parse(open(src_path).read())
    mg = set()
    for st in tree.body:
        if isinstance(st, (ast.Assign, ast.AnnAssign)):
            for n in ast.walk(st):
                if isinstance(n, ast.Name) and isinstance(n.ctx, ast.Store):
                    mg.add(n.id)
        elif isinstance(st, (ast.FunctionDef, ast.ClassDef)):
            mg.add(st.name)
        elif isinstance(st, (ast.Import, ast.ImportFrom)):
            for al in st.names:
                mg.add((al.asname or al.name).split('.')[0])
    target = None
    def find(body, prefix):
        nonlocal target
        for st in body:
            if isinstance(st, ast.FunctionDef):
                if prefix + st.name == qual:
                    target = st
                find(st.body, prefix + st.name + '.')
            elif isinstance(st, ast.ClassDef):
                find(st.body, prefix + st.name + '.')
    find(tree.body, '')
    if target is None:
        return None, 0
    names = locals_of(target, mg)
    if not names:
        return None, 0
    Renamer(names).visit(target)
    ast.fix_missing_locations(tree)
    return '# twin\n# twin\n# twin\n' + ast.unparse(tree) + '\n', len(names)


def run_twin(job):
    mod, qual = job
    d = tempfile.mkdtemp(prefix='fpq_tw_')
    r = os.path.join(d, 'r'); os.makedirs(r)
    try:
        subprocess.check_call('cd /repo && git ls-files -z fastparquet | xargs -0 cp --parents -t %s' % r, shell=True)
        p = os.path.join(r, 'fastparquet', mod + '.py')
        txt, n = make_twin(p, qual)
        if txt is None:
            return (mod, qual), None
        open(p, 'w').write(txt)
        # the twin must still compile
        compile(txt, p, 'exec')
        res = {}
        for pid in PIDS:
            q = subprocess.run(['/venv/bin/python', '-m', 'engine.check', pid, '--repo', r, '--no-evidence', '--json'],
                               cwd=HERE, capture_output=True, text=True)
            if q.returncode:
                keys = []
                for l in q.stdout.split('\n'):
                    if l.startswith('RESULT-JSON '):
                        keys = json.loads(l[12:])['violations']
                    if l.startswith('ANALYSIS-ERROR'):
                        keys = [l[:200]]
                res[pid] = {'exit': q.returncode, 'keys': keys[:6]}
        return (mod, qual), {'renamed': n, 'alarms': res}
    finally:
        shutil.rmtree(d)


if __name__ == '__main__':
    mods = sys.argv[1:] or MODS
    jobs = []
    for mod in mods:
        tree = ast.parse(open('/repo/fastparquet/%s.py' % mod).read())
        def walk(body, prefix):
            for st in body:
                if isinstance(st, ast.FunctionDef):
                    jobs.append((mod, prefix + st.name))
                    walk(st.body, prefix + st.name + '.')
                elif isinstance(st, ast.ClassDef):
                    walk(st.body, prefix + st.name + '.')
        walk(tree.body, '')
    with ThreadPoolExecutor(14) as ex:
        out = list(ex.map(run_twin, jobs))
    res = {'%s.%s' % k: v for k, v in out if v is not None}
    json.dump(res, open('/tmp/twins_result.json', 'w'), indent=1)
    nviol = 0
    for k, v in sorted(res.items()):
        for pid, a in v['alarms'].items():
            tag = 'VIOLATION' if a['exit'] == 1 else 'analysis-error'
            if a['exit'] == 1:
                nviol += 1
            print('%-45s %s %s %s' % (k, pid, tag, '; '.join(x[:90] for x in a['keys'][:3])))
    print('twins: %d, functions with any alarm: %d, (twin, check) pairs with VIOLATION: %d' % (
        len(res), sum(1 for v in res.values() if v['alarms']), nviol))
