"""Second family of behaviour-preserving twins, one per module: a `pass` inserted at the start of
every function body (after the docstring), an unrelated helper function and import appended,
all lines shifted.  Every check must stay silent."""
import ast, json, os, shutil, subprocess, sys, tempfile
HERE = os.path.dirname(os.path.dirname(os.path.abspath(__file__)))
PIDS = ['C%02d' % i for i in range(1, 21)]
MODS = ['api', 'writer', 'core', 'util', 'schema', 'converted_types', 'encoding', 'compression', 'dataframe']
bad = 0
for mod in MODS:
    d = tempfile.mkdtemp(prefix='fpq_tw2_')
    r = os.path.join(d, 'r'); os.makedirs(r)
    try:
        subprocess.check_call('cd /repo && git ls-files -z fastparquet | xargs -0 cp --parents -t %s' % r, shell=True)
        p = os.path.join(r, 'fastparquet', mod + '.py')
        tree = ast.parse(open(p).read())
        for n in ast.walk(tree):
            if isinstance(n, ast.FunctionDef):
                i = 1 if n.body and isinstance(n.body[0], ast.Expr) and isinstance(n.body[0].value, ast.Constant) else 0
                n.body.insert(i, ast.Pass())
        tree.body.append(ast.parse('import itertools as _twin_itertools\n\ndef _twin_helper(a, b=None):\n    out = []\n    for x in a:\n        out.append(x)\n    return out\n').body[0])
        tree.body.extend(ast.parse('def _twin_helper(a, b=None):\n    out = []\n    for x in a:\n        out.append(x)\n    return out\n').body)
        ast.fix_missing_locations(tree)
        txt = '# twin 2\n' * 7 + ast.unparse(tree) + '\n'
        compile(txt, p, 'exec')
        open(p, 'w').write(txt)
        for pid in PIDS:
            q = subprocess.run(['/venv/bin/python', '-m', 'engine.check', pid, '--repo', r, '--no-evidence'],
                               cwd=HERE, capture_output=True, text=True)
            if q.returncode:
                bad += 1
                lines = [l for l in q.stdout.split('\n') if l.startswith(('  violated', 'ANALYSIS'))]
                print(mod, pid, 'exit', q.returncode, ' | '.join(l.strip()[:160] for l in lines[:3]))
    finally:
        shutil.rmtree(d)
print('twins2 alarms:', bad)
