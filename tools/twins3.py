"""Third family of behaviour-preserving twins: every .py module of the package is replaced by
ast.unparse(ast.parse(source)) - comments gone, quotes / parentheses / line breaks normalised, all line numbers moved.
All checks must stay silent (exit 0)."""
import ast, glob, os, shutil, subprocess, sys, tempfile
from concurrent.futures import ThreadPoolExecutor
HERE = os.path.dirname(os.path.dirname(os.path.abspath(__file__)))
PIDS = ['C%02d' % i for i in range(1, 21)]


def main():
    d = tempfile.mkdtemp(prefix='fpq_tw3_'); r = os.path.join(d, 'r'); os.makedirs(r)
    try:
        subprocess.check_call('cd /repo && git ls-files -z fastparquet | xargs -0 cp --parents -t %s' % r, shell=True)
        only = sys.argv[1:] or None
        for p in glob.glob(os.path.join(r, 'fastparquet', '*.py')):
            if only and os.path.basename(p)[:-3] not in only:
                continue
            s = open(p).read()
            open(p, 'w').write(ast.unparse(ast.parse(s)) + '\n')

        def one(pid):
            q = subprocess.run(['/venv/bin/python', '-m', 'engine.check', pid, '--repo', r, '--no-evidence'], cwd=HERE, capture_output=True, text=True)
            return pid, q.returncode, [l for l in q.stdout.split('\n') if l.strip().startswith('violated') or l.startswith('ANALYSIS-ERROR')][:6]
        with ThreadPoolExecutor(8) as ex:
            res = list(ex.map(one, PIDS))
        bad = 0
        for pid, rc, lines in res:
            if rc:
                bad += 1
                print(pid, 'exit', rc)
                for l in lines:
                    print('   ', l[:260])
        print('twins3 alarms: %d' % bad)
    finally:
        shutil.rmtree(d)


if __name__ == '__main__':
    main()
