"""Fourth family of behaviour-preserving twins: "introduce explaining variable".  In every top-level function / method
of the .py modules, up to three call arguments that are attribute chains, subscripts or calls are hoisted into a fresh
local bound in the statement just before (`_x1 = a.b.c; f(_x1, ...)`).  All checks must stay silent: the canonicaliser
(engine/canon.py) inlines locals that do not exist on the reference tree and are bound once and read once in the next
statement.   usage: twins4.py [module ...]"""
import ast, json, os, shutil, subprocess, sys, tempfile
from concurrent.futures import ThreadPoolExecutor
HERE = os.path.dirname(os.path.dirname(os.path.abspath(__file__)))
PIDS = ['C%02d' % i for i in range(1, 21)]
MODS = ['api', 'writer', 'core', 'util', 'schema', 'converted_types', 'encoding', 'compression', 'dataframe']


def hoist(func, limit=3):
    """mutate func: returns number of temporaries introduced"""
    n = 0
    for holder in list(ast.walk(func)):
        if n >= limit:
            break
        for fld in ('body', 'orelse', 'finalbody'):
            blk = getattr(holder, fld, None)
            if not isinstance(blk, list) or isinstance(holder, (ast.ClassDef,)) or (isinstance(holder, ast.FunctionDef) and holder is not func):
                continue
            i = 0
            while i < len(blk) and n < limit:
                st = blk[i]
                if isinstance(st, (ast.Expr, ast.Assign, ast.Return, ast.AugAssign)):
                    tgt = None
                    # first call in the statement that is not inside a comprehension / lambda
                    banned = set()
                    for x in ast.walk(st):
                        if isinstance(x, (ast.ListComp, ast.SetComp, ast.DictComp, ast.GeneratorExp, ast.Lambda, ast.IfExp, ast.BoolOp)):
                            banned |= {id(y) for y in ast.walk(x)}
                    for c in ast.walk(st):
                        if isinstance(c, ast.Call) and id(c) not in banned:
                            for k, a in enumerate(c.args):
                                if isinstance(a, (ast.Attribute, ast.Subscript)) and not isinstance(getattr(a, 'ctx', None), ast.Store):
                                    tgt = (c, k, a)
                                    break
                        if tgt:
                            break
                    if tgt:
                        c, k, a = tgt
                        n += 1
                        nm = '_x%d' % n
                        c.args[k] = ast.copy_location(ast.Name(id=nm, ctx=ast.Load()), a)
                        blk.insert(i, ast.copy_location(ast.Assign(targets=[ast.Name(id=nm, ctx=ast.Store())], value=a), st))
                        i += 1
                i += 1
    return n


def run_twin(job):
    mod, qual = job
    d = tempfile.mkdtemp(prefix='fpq_tw4_'); r = os.path.join(d, 'r'); os.makedirs(r)
    try:
        subprocess.check_call('cd /repo && git ls-files -z fastparquet | xargs -0 cp --parents -t %s' % r, shell=True)
        p = os.path.join(r, 'fastparquet', mod + '.py')
        tree = ast.parse(open(p).read())
        func = None
        parts = qual.split('.')
        body = tree.body
        for part in parts:
            nxt = [s for s in body if isinstance(s, (ast.FunctionDef, ast.ClassDef)) and s.name == part]
            if not nxt:
                return job, None
            func = nxt[0]; body = func.body
        if not isinstance(func, ast.FunctionDef):
            return job, None
        n = hoist(func)
        if not n:
            return job, None
        ast.fix_missing_locations(tree)
        txt = ast.unparse(tree) + '\n'
        compile(txt, p, 'exec')
        open(p, 'w').write(txt)
        res = {}
        for pid in PIDS:
            q = subprocess.run(['/venv/bin/python', '-m', 'engine.check', pid, '--repo', r, '--no-evidence', '--json'], cwd=HERE, capture_output=True, text=True)
            if q.returncode:
                keys = []
                for l in q.stdout.split('\n'):
                    if l.startswith('RESULT-JSON '):
                        keys = json.loads(l[12:])['violations']
                    if l.startswith('ANALYSIS-ERROR'):
                        keys = [l[:200]]
                res[pid] = {'exit': q.returncode, 'keys': keys[:4]}
        return job, {'hoisted': n, 'alarms': res}
    finally:
        shutil.rmtree(d)


if __name__ == '__main__':
    mods = sys.argv[1:] or MODS
    jobs = []
    for mod in mods:
        tree = ast.parse(open('/repo/fastparquet/%s.py' % mod).read())
        for st in tree.body:
            if isinstance(st, ast.FunctionDef):
                jobs.append((mod, st.name))
            elif isinstance(st, ast.ClassDef):
                for s2 in st.body:
                    if isinstance(s2, ast.FunctionDef):
                        jobs.append((mod, st.name + '.' + s2.name))
    with ThreadPoolExecutor(14) as ex:
        out = list(ex.map(run_twin, jobs))
    res = {'%s.%s' % k: v for k, v in out if v is not None}
    nviol = 0
    for k, v in sorted(res.items()):
        for pid, a in v['alarms'].items():
            if a['exit'] == 1:
                nviol += 1
            print('%-45s %s %s %s' % (k, pid, 'VIOLATION' if a['exit'] == 1 else 'analysis-error', '; '.join(x[:100] for x in a['keys'][:2])))
    print('twins4: %d functions with hoisted temporaries, with any alarm: %d, (twin, check) pairs with VIOLATION: %d' % (
        len(res), sum(1 for v in res.values() if v['alarms']), nviol))
