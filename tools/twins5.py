"""Fifth family of behaviour-preserving twins: small logic-preserving rewrites a maintainer makes while tidying up.
  ifswap   `if c: A else: B`  ->  `if not c: B else: A`   (plain if/else only, no elif chains)
  cmpswap  `a == b` -> `b == a`, `a != b` -> `b != a`, `a < b` -> `b > a` ... when both sides are names, attributes
           or constants (no calls: evaluation order is untouched)
  augment  `n += k` -> `n = n + k` for integer-constant k (numbers only: for lists the two differ)
One twin per (function, mode); every check must stay silent.   usage: twins5.py [mode ...] [--mods m1,m2]"""
import ast, json, os, shutil, subprocess, sys, tempfile
from concurrent.futures import ThreadPoolExecutor
HERE = os.path.dirname(os.path.dirname(os.path.abspath(__file__)))
PIDS = ['C%02d' % i for i in range(1, 21)]
MODS = ['api', 'writer', 'core', 'util', 'schema', 'converted_types', 'encoding', 'compression', 'dataframe']
SWAP = {ast.Eq: ast.Eq, ast.NotEq: ast.NotEq, ast.Lt: ast.Gt, ast.Gt: ast.Lt, ast.LtE: ast.GtE, ast.GtE: ast.LtE}


def own(func):
    out, st = [], list(ast.iter_child_nodes(func))
    while st:
        x = st.pop()
        if isinstance(x, (ast.FunctionDef, ast.AsyncFunctionDef, ast.ClassDef, ast.Lambda)):
            continue
        out.append(x); st.extend(ast.iter_child_nodes(x))
    return out


def simple(e):
    return isinstance(e, (ast.Name, ast.Constant)) or (isinstance(e, ast.Attribute) and simple(e.value))


def rewrite(func, mode):
    n = 0
    for x in own(func):
        if mode == 'ifswap' and isinstance(x, ast.If) and x.orelse and not (len(x.orelse) == 1 and isinstance(x.orelse[0], ast.If)):
            t = x.test
            x.test = t.operand if isinstance(t, ast.UnaryOp) and isinstance(t.op, ast.Not) else ast.UnaryOp(op=ast.Not(), operand=t)
            x.body, x.orelse = x.orelse, x.body
            n += 1
        elif mode == 'cmpswap' and isinstance(x, ast.Compare) and len(x.ops) == 1 and type(x.ops[0]) in SWAP \
                and simple(x.left) and simple(x.comparators[0]):
            x.left, x.comparators[0] = x.comparators[0], x.left
            x.ops[0] = SWAP[type(x.ops[0])]()
            n += 1
    if mode == 'augment':
        for holder in [func] + own(func):
            for fld in ('body', 'orelse', 'finalbody'):
                blk = getattr(holder, fld, None)
                if not isinstance(blk, list):
                    continue
                for i, st in enumerate(blk):
                    if isinstance(st, ast.AugAssign) and isinstance(st.target, ast.Name) and isinstance(st.op, (ast.Add, ast.Sub)) \
                            and isinstance(st.value, ast.Constant) and isinstance(st.value.value, int):
                        blk[i] = ast.copy_location(ast.Assign(
                            targets=[ast.Name(id=st.target.id, ctx=ast.Store())],
                            value=ast.BinOp(left=ast.Name(id=st.target.id, ctx=ast.Load()), op=st.op, right=st.value)), st)
                        n += 1
    return n


def run_twin(job):
    mod, qual, mode = job
    d = tempfile.mkdtemp(prefix='fpq_tw5_'); r = os.path.join(d, 'r'); os.makedirs(r)
    try:
        subprocess.check_call('cd /repo && git ls-files -z fastparquet | xargs -0 cp --parents -t %s' % r, shell=True)
        p = os.path.join(r, 'fastparquet', mod + '.py')
        tree = ast.parse(open(p).read())
        func, body = None, tree.body
        for part in qual.split('.'):
            nxt = [s for s in body if isinstance(s, (ast.FunctionDef, ast.ClassDef)) and s.name == part]
            if not nxt:
                return job, None
            func = nxt[0]; body = func.body
        if not isinstance(func, ast.FunctionDef):
            return job, None
        n = rewrite(func, mode)
        if not n:
            return job, None
        ast.fix_missing_locations(tree)
        txt = ast.unparse(tree) + '\n'
        compile(txt, p, 'exec')
        open(p, 'w').write(txt)
        res = {}
        for pid in PIDS:
            q = subprocess.run(['/venv/bin/python', '-m', 'engine.check', pid, '--repo', r, '--no-evidence', '--json'], cwd=HERE, capture_output=True, text=True)
            if q.returncode:
                keys = []
                for l in q.stdout.split('\n'):
                    if l.startswith('RESULT-JSON '):
                        keys = json.loads(l[12:])['violations']
                    if l.startswith('ANALYSIS-ERROR'):
                        keys = [l[:200]]
                res[pid] = {'exit': q.returncode, 'keys': keys[:4]}
        return job, {'rewrites': n, 'alarms': res}
    finally:
        shutil.rmtree(d)


if __name__ == '__main__':
    args = [a for a in sys.argv[1:] if not a.startswith('--')]
    mods = MODS
    for a in sys.argv[1:]:
        if a.startswith('--mods='):
            mods = a[7:].split(',')
    modes = args or ['ifswap', 'cmpswap', 'augment']
    jobs = []
    for mod in mods:
        tree = ast.parse(open('/repo/fastparquet/%s.py' % mod).read())
        for st in tree.body:
            if isinstance(st, ast.FunctionDef):
                jobs += [(mod, st.name, m) for m in modes]
            elif isinstance(st, ast.ClassDef):
                for s2 in st.body:
                    if isinstance(s2, ast.FunctionDef):
                        jobs += [(mod, st.name + '.' + s2.name, m) for m in modes]
    with ThreadPoolExecutor(int(os.environ.get('JOBS', '14'))) as ex:
        out = list(ex.map(run_twin, jobs))
    res = {'%s.%s[%s]' % k: v for k, v in out if v is not None}
    nviol = 0
    for k, v in sorted(res.items()):
        for pid, a in v['alarms'].items():
            if a['exit'] == 1:
                nviol += 1
            print('%-50s %s %s %s' % (k, pid, 'VIOLATION' if a['exit'] == 1 else 'analysis-error', '; '.join(x[:110] for x in a['keys'][:2])))
    for m in modes:
        sub = {k: v for k, v in res.items() if k.endswith('[%s]' % m)}
        print('twins5[%s]: %d twins, with any alarm: %d, (twin, check) alarms: %d' % (
            m, len(sub), sum(1 for v in sub.values() if v['alarms']), sum(len(v['alarms']) for v in sub.values())))
    print('twins5: %d twins, with any alarm: %d, (twin, check) pairs with VIOLATION: %d' % (
        len(res), sum(1 for v in res.values() if v['alarms']), nviol))
