"""Sixth family of behaviour-preserving twins: "extract function".
  stmts  two or more consecutive call statements of a function are moved into a new module-level helper that takes the
         local names they read as parameters (`f.write(a); f.write(b)` -> `_twin_helper_1(f, a, b)`)
  expr   the right-hand side of one `x = <call>` assignment is moved into a helper that returns it
One twin per (function, mode); every check must stay silent (the canonicaliser splices helpers that the reference tree
does not have back into their call sites).    usage: twins6.py [mode ...] [--mods=m1,m2]"""
import ast, builtins, json, os, shutil, subprocess, sys, tempfile
from concurrent.futures import ThreadPoolExecutor
HERE = os.path.dirname(os.path.dirname(os.path.abspath(__file__)))
PIDS = ['C%02d' % i for i in range(1, 21)]
MODS = ['api', 'writer', 'core', 'util', 'schema', 'converted_types', 'encoding', 'compression', 'dataframe']


def local_names(func):
    names = {a.arg for a in func.args.args + func.args.kwonlyargs + func.args.posonlyargs}
    if func.args.vararg:
        names.add(func.args.vararg.arg)
    if func.args.kwarg:
        names.add(func.args.kwarg.arg)
    for x in ast.walk(func):
        if isinstance(x, ast.Name) and isinstance(x.ctx, ast.Store):
            names.add(x.id)
        if isinstance(x, ast.ExceptHandler) and x.name:
            names.add(x.name)
    return names


def plain_call_stmt(st):
    if not (isinstance(st, ast.Expr) and isinstance(st.value, ast.Call)):
        return False
    return not any(isinstance(y, (ast.Lambda, ast.Yield, ast.YieldFrom, ast.Await, ast.NamedExpr, ast.ListComp, ast.DictComp,
                                  ast.SetComp, ast.GeneratorExp, ast.Starred)) for y in ast.walk(st))


def reads(nodes, locs):
    out = []
    for n in nodes:
        for y in ast.walk(n):
            if isinstance(y, ast.Name) and isinstance(y.ctx, ast.Load) and y.id in locs and y.id not in out:
                out.append(y.id)
    return out


def rewrite(tree, func, mode):
    locs = local_names(func)
    for holder in [func] + [x for x in ast.walk(func) if x is not func and not isinstance(x, (ast.FunctionDef, ast.Lambda, ast.ClassDef))]:
        for fld in ('body', 'orelse', 'finalbody'):
            blk = getattr(holder, fld, None)
            if not isinstance(blk, list):
                continue
            if any(isinstance(y, (ast.FunctionDef, ast.ClassDef)) and y is not func and any(z is holder for z in ast.walk(y)) for y in ast.walk(func)):
                continue        # inside a nested def: its locals are not ours
            if mode == 'stmts':
                for i in range(len(blk) - 1):
                    if plain_call_stmt(blk[i]) and plain_call_stmt(blk[i + 1]):
                        run = [blk[i], blk[i + 1]]
                        params = reads(run, locs)
                        h = ast.FunctionDef(name='_twin_helper_1', args=ast.arguments(posonlyargs=[], args=[ast.arg(arg=p) for p in params],
                                            kwonlyargs=[], kw_defaults=[], defaults=[]), body=run, decorator_list=[], type_params=[])
                        call = ast.Expr(value=ast.Call(func=ast.Name(id='_twin_helper_1', ctx=ast.Load()),
                                                       args=[ast.Name(id=p, ctx=ast.Load()) for p in params], keywords=[]))
                        blk[i:i + 2] = [ast.copy_location(call, run[0])]
                        tree.body.append(h)
                        return 1
            else:
                for i, st in enumerate(blk):
                    if isinstance(st, ast.Assign) and len(st.targets) == 1 and isinstance(st.targets[0], ast.Name) and isinstance(st.value, ast.Call) \
                            and not any(isinstance(y, (ast.Lambda, ast.Yield, ast.YieldFrom, ast.Await, ast.NamedExpr, ast.ListComp, ast.DictComp,
                                                       ast.SetComp, ast.GeneratorExp, ast.Starred)) for y in ast.walk(st.value)):
                        params = reads([st.value], locs)
                        h = ast.FunctionDef(name='_twin_helper_1', args=ast.arguments(posonlyargs=[], args=[ast.arg(arg=p) for p in params],
                                            kwonlyargs=[], kw_defaults=[], defaults=[]), body=[ast.Return(value=st.value)], decorator_list=[], type_params=[])
                        st.value = ast.Call(func=ast.Name(id='_twin_helper_1', ctx=ast.Load()),
                                            args=[ast.Name(id=p, ctx=ast.Load()) for p in params], keywords=[])
                        tree.body.append(h)
                        return 1
    return 0


def run_twin(job):
    mod, qual, mode = job
    d = tempfile.mkdtemp(prefix='fpq_tw6_'); r = os.path.join(d, 'r'); os.makedirs(r)
    try:
        subprocess.check_call('cd /repo && git ls-files -z fastparquet | xargs -0 cp --parents -t %s' % r, shell=True)
        p = os.path.join(r, 'fastparquet', mod + '.py')
        tree = ast.parse(open(p).read())
        func, body = None, tree.body
        for part in qual.split('.'):
            nxt = [s for s in body if isinstance(s, (ast.FunctionDef, ast.ClassDef)) and s.name == part]
            if not nxt:
                return job, None
            func = nxt[0]; body = func.body
        if not isinstance(func, ast.FunctionDef) or not rewrite(tree, func, mode):
            return job, None
        ast.fix_missing_locations(tree)
        txt = ast.unparse(tree) + '\n'
        compile(txt, p, 'exec')
        open(p, 'w').write(txt)
        res = {}
        for pid in PIDS:
            q = subprocess.run(['/venv/bin/python', '-m', 'engine.check', pid, '--repo', r, '--no-evidence', '--json'], cwd=HERE, capture_output=True, text=True)
            if q.returncode:
                keys = []
                for l in q.stdout.split('\n'):
                    if l.startswith('RESULT-JSON '):
                        keys = json.loads(l[12:])['violations']
                    if l.startswith('ANALYSIS-ERROR'):
                        keys = [l[:200]]
                res[pid] = {'exit': q.returncode, 'keys': keys[:4]}
        return job, {'alarms': res}
    finally:
        shutil.rmtree(d)


if __name__ == '__main__':
    args = [a for a in sys.argv[1:] if not a.startswith('--')]
    mods = MODS
    for a in sys.argv[1:]:
        if a.startswith('--mods='):
            mods = a[7:].split(',')
    modes = args or ['stmts', 'expr']
    jobs = []
    for mod in mods:
        tree = ast.parse(open('/repo/fastparquet/%s.py' % mod).read())
        for st in tree.body:
            if isinstance(st, ast.FunctionDef):
                jobs += [(mod, st.name, m) for m in modes]
            elif isinstance(st, ast.ClassDef):
                for s2 in st.body:
                    if isinstance(s2, ast.FunctionDef):
                        jobs += [(mod, st.name + '.' + s2.name, m) for m in modes]
    with ThreadPoolExecutor(int(os.environ.get('JOBS', '14'))) as ex:
        out = list(ex.map(run_twin, jobs))
    res = {'%s.%s[%s]' % k: v for k, v in out if v is not None}
    nviol = 0
    for k, v in sorted(res.items()):
        for pid, a in v['alarms'].items():
            if a['exit'] == 1:
                nviol += 1
            print('%-50s %s %s %s' % (k, pid, 'VIOLATION' if a['exit'] == 1 else 'analysis-error', '; '.join(x[:110] for x in a['keys'][:2])))
    for m in modes:
        sub = {k: v for k, v in res.items() if k.endswith('[%s]' % m)}
        print('twins6[%s]: %d twins, with any alarm: %d, (twin, check) alarms: %d' % (
            m, len(sub), sum(1 for v in sub.values() if v['alarms']), sum(len(v['alarms']) for v in sub.values())))
    print('twins6: %d twins, with any alarm: %d, (twin, check) pairs with VIOLATION: %d' % (
        len(res), sum(1 for v in res.values() if v['alarms']), nviol))
