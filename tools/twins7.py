"""Seventh family of behaviour-preserving twins: string formatting style.  In one function at a time every
`"...%s...%r..." % (a, b)` with only %s / %r specifiers becomes the equivalent f-string (mode `tof`), or every f-string with
plain `{expr}` / `{expr!r}` fields becomes the equivalent %-format (mode `top`) - what pyupgrade / a style pass does.
Every check must stay silent.   usage: twins7.py [tof] [top] [--mods=m1,m2]"""
import ast, json, os, re, shutil, subprocess, sys, tempfile
from concurrent.futures import ThreadPoolExecutor
HERE = os.path.dirname(os.path.dirname(os.path.abspath(__file__)))
sys.path.insert(0, HERE)
from engine.canon import fmt_equiv
PIDS = ['C%02d' % i for i in range(1, 21)]
MODS = ['api', 'writer', 'core', 'util', 'schema', 'converted_types', 'encoding', 'compression', 'dataframe']


class Conv(ast.NodeTransformer):
    def __init__(self, mode):
        self.mode, self.n = mode, 0

    def visit_FunctionDef(self, node):
        self.generic_visit(node)
        return node

    def visit_BinOp(self, node):
        self.generic_visit(node)
        if self.mode == 'tof' and isinstance(node.op, ast.Mod):
            alt = fmt_equiv(node)
            if alt is not None:
                self.n += 1
                return ast.copy_location(alt, node)
        return node

    def visit_JoinedStr(self, node):
        self.generic_visit(node)
        if self.mode == 'top':
            alt = fmt_equiv(node)
            if alt is not None:
                self.n += 1
                return ast.copy_location(alt, node)
        return node


def run_twin(job):
    mod, qual, mode = job
    d = tempfile.mkdtemp(prefix='fpq_tw7_'); r = os.path.join(d, 'r'); os.makedirs(r)
    try:
        subprocess.check_call('cd /repo && git ls-files -z fastparquet | xargs -0 cp --parents -t %s' % r, shell=True)
        p = os.path.join(r, 'fastparquet', mod + '.py')
        tree = ast.parse(open(p).read())
        func, body, holder = None, tree.body, tree
        for part in qual.split('.'):
            nxt = [s for s in body if isinstance(s, (ast.FunctionDef, ast.ClassDef)) and s.name == part]
            if not nxt:
                return job, None
            holder, func = (func or tree), nxt[0]; body = func.body
        if not isinstance(func, ast.FunctionDef):
            return job, None
        c = Conv(mode)
        c.generic_visit(func)
        if not c.n:
            return job, None
        ast.fix_missing_locations(tree)
        txt = ast.unparse(tree) + '\n'
        compile(txt, p, 'exec')
        open(p, 'w').write(txt)
        res = {}
        for pid in PIDS:
            q = subprocess.run(['/venv/bin/python', '-m', 'engine.check', pid, '--repo', r, '--no-evidence', '--json'], cwd=HERE, capture_output=True, text=True)
            if q.returncode:
                keys = []
                for l in q.stdout.split('\n'):
                    if l.startswith('RESULT-JSON '):
                        keys = json.loads(l[12:])['violations']
                    if l.startswith('ANALYSIS-ERROR'):
                        keys = [l[:200]]
                res[pid] = {'exit': q.returncode, 'keys': keys[:4]}
        return job, {'n': c.n, 'alarms': res}
    finally:
        shutil.rmtree(d)


if __name__ == '__main__':
    args = [a for a in sys.argv[1:] if not a.startswith('--')]
    mods = MODS
    for a in sys.argv[1:]:
        if a.startswith('--mods='):
            mods = a[7:].split(',')
    modes = args or ['tof', 'top']
    jobs = []
    for mod in mods:
        tree = ast.parse(open('/repo/fastparquet/%s.py' % mod).read())
        for st in tree.body:
            if isinstance(st, ast.FunctionDef):
                jobs += [(mod, st.name, m) for m in modes]
            elif isinstance(st, ast.ClassDef):
                for s2 in st.body:
                    if isinstance(s2, ast.FunctionDef):
                        jobs += [(mod, st.name + '.' + s2.name, m) for m in modes]
    with ThreadPoolExecutor(int(os.environ.get('JOBS', '14'))) as ex:
        out = list(ex.map(run_twin, jobs))
    res = {'%s.%s[%s]' % k: v for k, v in out if v is not None}
    nviol = 0
    for k, v in sorted(res.items()):
        for pid, a in v['alarms'].items():
            if a['exit'] == 1:
                nviol += 1
            print('%-50s %s %s %s' % (k, pid, 'VIOLATION' if a['exit'] == 1 else 'analysis-error', '; '.join(x[:110] for x in a['keys'][:2])))
    for m in modes:
        sub = {k: v for k, v in res.items() if k.endswith('[%s]' % m)}
        print('twins7[%s]: %d twins, with any alarm: %d, (twin, check) alarms: %d' % (
            m, len(sub), sum(1 for v in sub.values() if v['alarms']), sum(len(v['alarms']) for v in sub.values())))
    print('twins7: %d twins, with any alarm: %d, (twin, check) pairs with VIOLATION: %d' % (
        len(res), sum(1 for v in res.values() if v['alarms']), nviol))
