"""Eighth family of behaviour-preserving twins: the same control flow laid out differently.
  guard    `if c: A  else: B` as the LAST statement of a loop body / function body, B not falling into anything
           -> `if c: A; continue|return` + B dedented   (loop: continue; function body: only when A always leaves)
  unguard  `if c: ...leave` followed by the rest R as the last statements of a block -> `if c: ... else: R`
  nest     `if a and b: S` (no else) -> `if a:\n if b: S`
  flatten  `if a:\n if b: S` (no elses, nothing else inside) -> `if a and b: S`
  unelif   `if c: ...leave  elif d: X [else: Y]` -> `if c: ...leave` ; `if d: X [else: Y]`
One twin per (function, mode): the first site found.  Every check must stay silent.
usage: twins8.py [mode ...] [--mods=m1,m2]"""
import ast, json, os, shutil, subprocess, sys, tempfile
from concurrent.futures import ThreadPoolExecutor
HERE = os.path.dirname(os.path.dirname(os.path.abspath(__file__)))
PIDS = ['C%02d' % i for i in range(1, 21)]
MODS = ['api', 'writer', 'core', 'util', 'schema', 'converted_types', 'encoding', 'compression', 'dataframe']
LEAVE = (ast.Return, ast.Raise, ast.Continue, ast.Break)


def leaves(stmts):
    if not stmts:
        return False
    last = stmts[-1]
    if isinstance(last, LEAVE):
        return True
    if isinstance(last, ast.If) and last.orelse:
        return leaves(last.body) and leaves(last.orelse)
    return False


def blocks(func):
    """(holder, field, list, kind) with kind 'loop' for a loop body, 'func' for the function body, 'other'"""
    out = [(func, 'body', func.body, 'func')]
    for x in ast.walk(func):
        if x is func or isinstance(x, (ast.FunctionDef, ast.Lambda, ast.ClassDef)):
            continue
        for fld in ('body', 'orelse', 'finalbody'):
            b = getattr(x, fld, None)
            if isinstance(b, list) and b and isinstance(b[0], ast.stmt):
                kind = 'loop' if isinstance(x, (ast.For, ast.While)) and fld == 'body' else 'other'
                out.append((x, fld, b, kind))
    nested = set()
    for x in ast.walk(func):
        if isinstance(x, (ast.FunctionDef, ast.Lambda, ast.ClassDef)) and x is not func:
            nested |= {id(y) for y in ast.walk(x)}
    return [b for b in out if id(b[0]) not in nested or b[0] is func]


def rewrite(func, mode):
    for holder, fld, blk, kind in blocks(func):
        if mode == 'guard' and blk and isinstance(blk[-1], ast.If) and blk[-1].orelse and kind in ('loop', 'func'):
            st = blk[-1]
            if len(st.orelse) == 1 and isinstance(st.orelse[0], ast.If):
                continue        # an elif chain
            if kind == 'loop':
                if not leaves(st.body):
                    st.body.append(ast.Continue())
            elif not leaves(st.body):
                continue
            rest, st.orelse = st.orelse, []
            blk.extend(rest)
            return 1
        if mode == 'unguard':
            for i, st in enumerate(blk[:-1]):
                if isinstance(st, ast.If) and not st.orelse and leaves(st.body) and i + 1 < len(blk):
                    rest = blk[i + 1:]
                    if any(isinstance(x, (ast.FunctionDef, ast.ClassDef, ast.Import, ast.ImportFrom)) for x in rest):
                        continue
                    # (only when nothing follows the block's end that the rest would have fallen into differently: it
                    # stays the tail of the same block, so it falls into the same place)
                    st.orelse = rest
                    del blk[i + 1:]
                    return 1
        if mode == 'nest':
            for st in blk:
                if isinstance(st, ast.If) and not st.orelse and isinstance(st.test, ast.BoolOp) and isinstance(st.test.op, ast.And) and len(st.test.values) >= 2 \
                        and not any(isinstance(y, ast.NamedExpr) for y in ast.walk(st.test)):
                    first, others = st.test.values[0], st.test.values[1:]
                    inner = ast.If(test=others[0] if len(others) == 1 else ast.BoolOp(op=ast.And(), values=others), body=st.body, orelse=[])
                    st.test, st.body = first, [inner]
                    return 1
        if mode == 'flatten':
            for st in blk:
                if isinstance(st, ast.If) and not st.orelse and len(st.body) == 1 and isinstance(st.body[0], ast.If) and not st.body[0].orelse \
                        and not any(isinstance(y, ast.NamedExpr) for y in ast.walk(st.test)):
                    inner = st.body[0]
                    st.test = ast.BoolOp(op=ast.And(), values=[st.test, inner.test])
                    st.body = inner.body
                    return 1
        if mode == 'unelif':
            for i, st in enumerate(blk):
                if isinstance(st, ast.If) and len(st.orelse) == 1 and isinstance(st.orelse[0], ast.If) and leaves(st.body):
                    nxt = st.orelse[0]
                    st.orelse = []
                    blk.insert(i + 1, nxt)
                    return 1
    return 0


def run_twin(job):
    mod, qual, mode = job
    d = tempfile.mkdtemp(prefix='fpq_tw8_'); r = os.path.join(d, 'r'); os.makedirs(r)
    try:
        subprocess.check_call('cd /repo && git ls-files -z fastparquet | xargs -0 cp --parents -t %s' % r, shell=True)
        p = os.path.join(r, 'fastparquet', mod + '.py')
        tree = ast.parse(open(p).read())
        func, body = None, tree.body
        for part in qual.split('.'):
            nxt = [s for s in body if isinstance(s, (ast.FunctionDef, ast.ClassDef)) and s.name == part]
            if not nxt:
                return job, None
            func = nxt[0]; body = func.body
        if not isinstance(func, ast.FunctionDef) or not rewrite(func, mode):
            return job, None
        ast.fix_missing_locations(tree)
        txt = ast.unparse(tree) + '\n'
        compile(txt, p, 'exec')
        open(p, 'w').write(txt)
        res = {}
        for pid in PIDS:
            q = subprocess.run(['/venv/bin/python', '-m', 'engine.check', pid, '--repo', r, '--no-evidence', '--json'], cwd=HERE, capture_output=True, text=True)
            if q.returncode:
                keys = []
                for l in q.stdout.split('\n'):
                    if l.startswith('RESULT-JSON '):
                        keys = json.loads(l[12:])['violations']
                    if l.startswith('ANALYSIS-ERROR'):
                        keys = [l[:200]]
                res[pid] = {'exit': q.returncode, 'keys': keys[:4]}
        return job, {'alarms': res}
    finally:
        shutil.rmtree(d)


if __name__ == '__main__':
    args = [a for a in sys.argv[1:] if not a.startswith('--')]
    mods = MODS
    for a in sys.argv[1:]:
        if a.startswith('--mods='):
            mods = a[7:].split(',')
    modes = args or ['guard', 'unguard', 'nest', 'flatten', 'unelif']
    jobs = []
    for mod in mods:
        tree = ast.parse(open('/repo/fastparquet/%s.py' % mod).read())
        for st in tree.body:
            if isinstance(st, ast.FunctionDef):
                jobs += [(mod, st.name, m) for m in modes]
            elif isinstance(st, ast.ClassDef):
                for s2 in st.body:
                    if isinstance(s2, ast.FunctionDef):
                        jobs += [(mod, st.name + '.' + s2.name, m) for m in modes]
    with ThreadPoolExecutor(int(os.environ.get('JOBS', '14'))) as ex:
        out = list(ex.map(run_twin, jobs))
    res = {'%s.%s[%s]' % k: v for k, v in out if v is not None}
    nviol = 0
    for k, v in sorted(res.items()):
        for pid, a in v['alarms'].items():
            if a['exit'] == 1:
                nviol += 1
            print('%-50s %s %s %s' % (k, pid, 'VIOLATION' if a['exit'] == 1 else 'analysis-error', '; '.join(x[:110] for x in a['keys'][:2])))
    for m in modes:
        sub = {k: v for k, v in res.items() if k.endswith('[%s]' % m)}
        print('twins8[%s]: %d twins, with any alarm: %d, (twin, check) alarms: %d' % (
            m, len(sub), sum(1 for v in sub.values() if v['alarms']), sum(len(v['alarms']) for v in sub.values())))
    print('twins8: %d twins, with any alarm: %d, (twin, check) pairs with VIOLATION: %d' % (
        len(res), sum(1 for v in res.values() if v['alarms']), nviol))
