"""Ninth family of behaviour-preserving twins: the same computation in another idiom.
  comp2loop  `x = [e for t in it if c]` / `{k: v for ...}` / `{e for ...}` (one `for` clause, a plain name as target of the
             assignment) -> `x = []` ; `for t in it:` ; `if c:` ; `x.append(e)`
  ifexp2if   `x = a if c else b` -> `if c: x = a  else: x = b`;  `return a if c else b` -> `if c: return a` ; `return b`
  if2ifexp   `if c: x = a  else: x = b` -> `x = a if c else b`;  `if c: return a  else: return b` -> `return a if c else b`
  cse        a pure attribute / subscript expression that occurs twice or more in one block (its names not stored to in
             between) -> bound once to a new local in front of its first use
One twin per (function, mode): the first site found.  Every check must stay silent.
usage: twins9.py [mode ...] [--mods=m1,m2]"""
import ast, copy, json, os, shutil, subprocess, sys, tempfile
from concurrent.futures import ThreadPoolExecutor
HERE = os.path.dirname(os.path.dirname(os.path.abspath(__file__)))
sys.path.insert(0, HERE)
from engine.canon import _pure
PIDS = ['C%02d' % i for i in range(1, 21)]
MODS = ['api', 'writer', 'core', 'util', 'schema', 'converted_types', 'encoding', 'compression', 'dataframe']


def blocks(func):
    nested = set()
    for x in ast.walk(func):
        if isinstance(x, (ast.FunctionDef, ast.Lambda, ast.ClassDef)) and x is not func:
            nested |= {id(y) for y in ast.walk(x)}
    out = [func.body]
    for x in ast.walk(func):
        if x is func or id(x) in nested:
            continue
        for fld in ('body', 'orelse', 'finalbody'):
            b = getattr(x, fld, None)
            if isinstance(b, list) and b and isinstance(b[0], ast.stmt):
                out.append(b)
    return out


def rewrite(func, mode):
    names = {n.id for n in ast.walk(func) if isinstance(n, ast.Name)}
    for blk in blocks(func):
        for i, st in enumerate(blk):
            if mode == 'comp2loop' and isinstance(st, ast.Assign) and len(st.targets) == 1 and isinstance(st.targets[0], ast.Name) \
                    and isinstance(st.value, (ast.ListComp, ast.SetComp, ast.DictComp)) and len(st.value.generators) == 1 and len(st.value.generators[0].ifs) <= 1:
                c = st.value
                g = c.generators[0]
                acc = st.targets[0].id
                tv = {n.id for n in ast.walk(g.target) if isinstance(n, ast.Name)}
                inside = {id(n) for n in ast.walk(st)}
                # the loop variables leak out of a loop: only where the function does not use those names elsewhere,
                # and the accumulator is not read by the comprehension itself
                if any(isinstance(n, ast.Name) and n.id in tv and id(n) not in inside for n in ast.walk(func)):
                    continue
                if any(isinstance(n, ast.Name) and n.id == acc for n in ast.walk(c)):
                    continue
                if isinstance(c, ast.ListComp):
                    init, add = ast.List(elts=[], ctx=ast.Load()), ast.Expr(value=ast.Call(func=ast.Attribute(value=ast.Name(id=acc, ctx=ast.Load()), attr='append', ctx=ast.Load()), args=[c.elt], keywords=[]))
                elif isinstance(c, ast.SetComp):
                    init, add = ast.Call(func=ast.Name(id='set', ctx=ast.Load()), args=[], keywords=[]), ast.Expr(value=ast.Call(func=ast.Attribute(value=ast.Name(id=acc, ctx=ast.Load()), attr='add', ctx=ast.Load()), args=[c.elt], keywords=[]))
                else:
                    init, add = ast.Dict(keys=[], values=[]), ast.Assign(targets=[ast.Subscript(value=ast.Name(id=acc, ctx=ast.Load()), slice=c.key, ctx=ast.Store())], value=c.value)
                body = [add] if not g.ifs else [ast.If(test=g.ifs[0], body=[add], orelse=[])]
                loop = ast.For(target=g.target, iter=g.iter, body=body, orelse=[])
                for n in ast.walk(loop.target):
                    if isinstance(n, ast.Name):
                        n.ctx = ast.Store()
                blk[i:i + 1] = [ast.Assign(targets=[ast.Name(id=acc, ctx=ast.Store())], value=init), loop]
                return 1
            if mode == 'ifexp2if' and isinstance(st, (ast.Assign, ast.Return)) and isinstance(st.value, ast.IfExp):
                e = st.value
                if isinstance(st, ast.Assign):
                    new = [ast.If(test=e.test, body=[ast.Assign(targets=st.targets, value=e.body)], orelse=[ast.Assign(targets=copy.deepcopy(st.targets), value=e.orelse)])]
                else:
                    new = [ast.If(test=e.test, body=[ast.Return(value=e.body)], orelse=[]), ast.Return(value=e.orelse)]
                blk[i:i + 1] = new
                return 1
            if mode == 'if2ifexp' and isinstance(st, ast.If) and len(st.body) == 1 and len(st.orelse) == 1:
                a, b = st.body[0], st.orelse[0]
                if type(a) is type(b) and isinstance(a, ast.Assign) and len(a.targets) == 1 and isinstance(a.targets[0], ast.Name) \
                        and ast.unparse(a.targets[0]) == ast.unparse(b.targets[0]) and len(b.targets) == 1:
                    blk[i] = ast.Assign(targets=a.targets, value=ast.IfExp(test=st.test, body=a.value, orelse=b.value))
                    return 1
                if type(a) is type(b) and isinstance(a, ast.Return) and a.value is not None and b.value is not None:
                    blk[i] = ast.Return(value=ast.IfExp(test=st.test, body=a.value, orelse=b.value))
                    return 1
        if mode == 'cse':
            # candidate expressions: attribute chains / subscripts of depth >= 2 occurring (Load) at least twice in the
            # headers / simple statements of this block
            occ = {}
            for i, st in enumerate(blk):
                parts = [st] if not isinstance(st, (ast.If, ast.For, ast.While, ast.With, ast.Try, ast.FunctionDef, ast.ClassDef)) else \
                    ([st.test] if isinstance(st, (ast.If, ast.While)) else [st.iter] if isinstance(st, ast.For) else [])
                banned = set()
                for p_ in parts:
                    for x in ast.walk(p_):
                        if isinstance(x, (ast.ListComp, ast.SetComp, ast.DictComp, ast.GeneratorExp, ast.Lambda, ast.IfExp, ast.BoolOp)):
                            banned |= {id(y) for y in ast.walk(x)} - {id(x)}
                for p_ in parts:
                    for x in ast.walk(p_):
                        if isinstance(x, (ast.Attribute, ast.Subscript)) and isinstance(x.ctx, ast.Load) and id(x) not in banned and _pure(x) \
                                and isinstance(x.value, (ast.Attribute, ast.Subscript)):
                            occ.setdefault(ast.unparse(x), []).append((i, x))
            for t, sites in sorted(occ.items(), key=lambda kv: kv[1][0][0]):
                idx = sorted({i for i, _ in sites})
                if len(sites) < 2:
                    continue
                first, last = idx[0], idx[-1]
                reads = {n.id for n in ast.walk(sites[0][1]) if isinstance(n, ast.Name)}
                stored = set()
                for st in blk[first:last + 1]:
                    for n in ast.walk(st):
                        if isinstance(n, ast.Name) and isinstance(n.ctx, (ast.Store, ast.Del)):
                            stored.add(n.id)
                        if isinstance(n, (ast.Attribute, ast.Subscript)) and isinstance(n.ctx, (ast.Store, ast.Del)):
                            b = n
                            while isinstance(b, (ast.Attribute, ast.Subscript)):
                                b = b.value
                            if isinstance(b, ast.Name):
                                stored.add(b.id)
                        if isinstance(n, ast.Call) and any(isinstance(y, ast.Name) and y.id in reads for y in ast.walk(n)) \
                                and not _pure(n):
                            stored.add('<call>')
                if reads & stored or '<call>' in stored:
                    continue
                nm = '_cse1'
                if nm in names:
                    continue
                ids = {id(x) for _, x in sites}

                class _S(ast.NodeTransformer):
                    def visit(self, node):
                        if id(node) in ids:
                            return ast.copy_location(ast.Name(id=nm, ctx=ast.Load()), node)
                        return super().visit(node)
                expr = copy.deepcopy(sites[0][1])
                for j in idx:
                    st = blk[j]
                    if isinstance(st, (ast.If, ast.While)):
                        st.test = _S().visit(st.test)
                    elif isinstance(st, ast.For):
                        st.iter = _S().visit(st.iter)
                    else:
                        blk[j] = _S().visit(st)
                blk.insert(first, ast.Assign(targets=[ast.Name(id=nm, ctx=ast.Store())], value=expr))
                return 1
    return 0

def run_twin(job):
    mod, qual, mode = job
    d = tempfile.mkdtemp(prefix='fpq_tw9_'); r = os.path.join(d, 'r'); os.makedirs(r)
    try:
        subprocess.check_call('cd /repo && git ls-files -z fastparquet | xargs -0 cp --parents -t %s' % r, shell=True)
        p = os.path.join(r, 'fastparquet', mod + '.py')
        tree = ast.parse(open(p).read())
        func, body = None, tree.body
        for part in qual.split('.'):
            nxt = [s for s in body if isinstance(s, (ast.FunctionDef, ast.ClassDef)) and s.name == part]
            if not nxt:
                return job, None
            func = nxt[0]; body = func.body
        if not isinstance(func, ast.FunctionDef) or not rewrite(func, mode):
            return job, None
        ast.fix_missing_locations(tree)
        txt = ast.unparse(tree) + '\n'
        compile(txt, p, 'exec')
        open(p, 'w').write(txt)
        res = {}
        for pid in PIDS:
            q = subprocess.run(['/venv/bin/python', '-m', 'engine.check', pid, '--repo', r, '--no-evidence', '--json'], cwd=HERE, capture_output=True, text=True)
            if q.returncode:
                keys = []
                for l in q.stdout.split('\n'):
                    if l.startswith('RESULT-JSON '):
                        keys = json.loads(l[12:])['violations']
                    if l.startswith('ANALYSIS-ERROR'):
                        keys = [l[:200]]
                res[pid] = {'exit': q.returncode, 'keys': keys[:4]}
        return job, {'alarms': res}
    finally:
        shutil.rmtree(d)


if __name__ == '__main__':
    args = [a for a in sys.argv[1:] if not a.startswith('--')]
    mods = MODS
    for a in sys.argv[1:]:
        if a.startswith('--mods='):
            mods = a[7:].split(',')
    modes = args or ['comp2loop', 'ifexp2if', 'if2ifexp', 'cse']
    jobs = []
    for mod in mods:
        tree = ast.parse(open('/repo/fastparquet/%s.py' % mod).read())
        for st in tree.body:
            if isinstance(st, ast.FunctionDef):
                jobs += [(mod, st.name, m) for m in modes]
            elif isinstance(st, ast.ClassDef):
                for s2 in st.body:
                    if isinstance(s2, ast.FunctionDef):
                        jobs += [(mod, st.name + '.' + s2.name, m) for m in modes]
    with ThreadPoolExecutor(int(os.environ.get('JOBS', '14'))) as ex:
        out = list(ex.map(run_twin, jobs))
    res = {'%s.%s[%s]' % k: v for k, v in out if v is not None}
    nviol = 0
    for k, v in sorted(res.items()):
        for pid, a in v['alarms'].items():
            if a['exit'] == 1:
                nviol += 1
            print('%-50s %s %s %s' % (k, pid, 'VIOLATION' if a['exit'] == 1 else 'analysis-error', '; '.join(x[:110] for x in a['keys'][:2])))
    for m in modes:
        sub = {k: v for k, v in res.items() if k.endswith('[%s]' % m)}
        print('twins9[%s]: %d twins, with any alarm: %d, (twin, check) alarms: %d' % (
            m, len(sub), sum(1 for v in sub.values() if v['alarms']), sum(len(v['alarms']) for v in sub.values())))
    print('twins9: %d twins, with any alarm: %d, (twin, check) pairs with VIOLATION: %d' % (
        len(res), sum(1 for v in res.values() if v['alarms']), nviol))
