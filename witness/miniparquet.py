"""Tiny Thrift compact-protocol reader written from the specification (no fastparquet code).
Returns nested {field_id: value} dicts; lists as python lists; binary as bytes."""
import struct

def varint(b, p):
    r = s = 0
    while True:
        x = b[p]; p += 1
        r |= (x & 0x7f) << s
        if not x & 0x80:
            return r, p
        s += 7

def zz(n):
    return (n >> 1) ^ -(n & 1)

def value(b, p, t):
    if t == 1: return True, p
    if t == 2: return False, p
    if t == 3: return b[p], p + 1
    if t in (4, 5, 6):
        n, p = varint(b, p); return zz(n), p
    if t == 7: return struct.unpack('<d', b[p:p+8])[0], p + 8
    if t == 8:
        n, p = varint(b, p); return bytes(b[p:p+n]), p + n
    if t in (9, 10):
        h = b[p]; p += 1
        n = h >> 4; et = h & 15
        if n == 15: n, p = varint(b, p)
        out = []
        for _ in range(n):
            if et in (1, 2):
                out.append(b[p] == 1); p += 1
            else:
                v, p = value(b, p, et); out.append(v)
        return out, p
    if t == 12:
        return struct_(b, p)
    raise ValueError('type %d' % t)

def struct_(b, p=0, types=None):
    out = {}; fid = 0
    while True:
        h = b[p]; p += 1
        if h == 0:
            return out, p
        d, t = h >> 4, h & 15
        if d == 0:
            z, p = varint(b, p); fid = zz(z)
        else:
            fid += d
        v, p = value(b, p, t)
        out[fid] = v
        if types is not None:
            types[fid] = t

def footer(path):
    raw = open(path, 'rb').read()
    assert raw[-4:] == b'PAR1', 'bad trailing magic'
    n = struct.unpack('<I', raw[-8:-4])[0]
    return struct_(raw[-8 - n:-8])[0]
