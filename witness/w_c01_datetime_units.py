"""Witness (C01): datetime columns of every resolution round-trip under times='int64' and times='int96' and under
every nullability mode.  Two defects were found with it: (a) times='int96' took the raw int64 view for nanoseconds
whatever the column's resolution; (b) datetime64[s] columns are scaled by 1000 to milliseconds and, when nulls are
not split off (has_nulls False / inferred), NaT wrapped to 0 and read back as 1970-01-01."""
import os, shutil, sys, tempfile, warnings
import numpy as np, pandas as pd, fastparquet
warnings.simplefilter('ignore')
d = tempfile.mkdtemp(); bad = []
fn = os.path.join(d, 'a.parq')
try:
    for tz in (None, 'Asia/Tokyo'):
        for unit in ('s', 'ms', 'us', 'ns'):
            for hn in (False, True, 'infer'):
                for times in ('int64', 'int96'):
                    s = pd.Series(np.array(['2020-01-01T00:00:01', 'NaT', '1969-07-20T20:17:40'], dtype='M8[%s]' % unit))
                    if tz:
                        s = s.dt.tz_localize('UTC').dt.tz_convert(tz)
                    df = pd.DataFrame({'t': s})
                    tag = 'unit=%s tz=%s has_nulls=%s times=%s' % (unit, tz, hn, times)
                    try:
                        fastparquet.write(fn, df, has_nulls=hn, times=times)
                        out = fastparquet.ParquetFile(fn).to_pandas()
                        if list(out.t.isna()) != list(df.t.isna()) or list(out.t.dropna().astype(str)) != list(df.t.dropna().astype(str)):
                            bad.append('%s: wrote %s read %s' % (tag, list(df.t.astype(str)), list(out.t.astype(str))))
                    except Exception as e:
                        bad.append('%s: %r' % (tag, e))
finally:
    shutil.rmtree(d)
if bad:
    print('FAIL (%d):' % len(bad), *bad[:12], sep='\n  '); sys.exit(1)
print('OK')
