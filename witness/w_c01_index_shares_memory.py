"""Witness (C01/C06): a written row index of any supported kind comes back with its labels, on the full read and on
partial reads.  dataframe.empty built the pre-allocated index with Index(d), which recent pandas copies: the labels
read into d never reached the index (text index -> all None, sliced reads -> uninitialised labels)."""
import os, shutil, sys, tempfile, warnings
import pandas as pd, fastparquet
warnings.simplefilter('ignore')
d = tempfile.mkdtemp(); fn = os.path.join(d, 'a.parq'); bad = []
try:
    for idx in (pd.Index([10, 20, 30, 40], name='i'), pd.Index([1.5, 2.5, 3.5, 4.5], name='f'), pd.Index(['a', 'b', 'c', 'd'], name='s'),
                pd.date_range('2020', periods=4, name='t'), pd.CategoricalIndex(['u', 'v', 'u', 'w'], name='c'),
                pd.MultiIndex.from_tuples([(1, 'a'), (2, 'b'), (3, 'c'), (4, 'd')], names=['x', 'y'])):
        df = pd.DataFrame({'v': [1, 2, 3, 4]}, index=idx)
        fastparquet.write(fn, df, row_group_offsets=[0, 2])
        pf = fastparquet.ParquetFile(fn)
        full = list(pf.to_pandas().index)
        parts = [x for part in pf.iter_row_groups() for x in part.index]
        one = list(pf[1].to_pandas().index)
        if full != list(idx):
            bad.append('%s: full read index %s' % (type(idx).__name__, full))
        if parts != list(idx) or one != list(idx[2:]):
            bad.append('%s: partial reads give %s / %s' % (type(idx).__name__, parts, one))
finally:
    shutil.rmtree(d)
if bad:
    print('FAIL:', *bad, sep='\n  '); sys.exit(1)
print('OK')
