"""Witness (C01): the encoding of an object column is guessed from its first ten non-null values.  A column that
starts with integers and holds a float further down was cast with astype(int): 3.5 was written as 3.  Either the value
survives or the write is refused."""
import os, shutil, sys, tempfile, warnings
import pandas as pd, fastparquet
warnings.simplefilter('ignore')
d = tempfile.mkdtemp(); fn = os.path.join(d, 'a.parq'); bad = []
try:
    for hn in (True, False):
        vals = [1] * 12 + [3.5]
        df = pd.DataFrame({'o': pd.Series(vals, dtype=object)})
        try:
            fastparquet.write(fn, df, has_nulls=hn)
        except ValueError:
            continue
        got = fastparquet.ParquetFile(fn).to_pandas().o.tolist()
        if [float(v) for v in got] != [float(v) for v in vals]:
            bad.append('has_nulls=%s: wrote ...%s, read back ...%s' % (hn, vals[-2:], got[-2:]))
    df = pd.DataFrame({'o': pd.Series([2 ** 60, 5] * 8, dtype=object)})
    fastparquet.write(fn, df)
    if fastparquet.ParquetFile(fn).to_pandas().o.tolist() != df.o.tolist():
        bad.append('large integers changed')
finally:
    shutil.rmtree(d)
if bad:
    print('FAIL:', *bad, sep='\n  '); sys.exit(1)
print('OK')
