"""Witness (C01/C02): (a) a list of row_group_offsets that does not start at 0 silently dropped the leading rows
(and unsorted offsets wrote rows twice) - the write must keep every row or refuse; (b) a per-column codec dict
without a 'type' entry is compressed with compress_data's default (gzip) - the chunk must record that codec, not
UNCOMPRESSED; (c) check_32 must refuse 2**31."""
import os, shutil, sys, tempfile, warnings
import pandas as pd, fastparquet
from fastparquet import writer
warnings.simplefilter('ignore')
d = tempfile.mkdtemp(); fn = os.path.join(d, 'a.parq'); bad = []
try:
    df = pd.DataFrame({'x': list(range(8))})
    for offs in ([1, 3], [0, 5, 2]):
        try:
            fastparquet.write(fn, df, row_group_offsets=offs)
            got = fastparquet.ParquetFile(fn).to_pandas().x.tolist()
            if got != df.x.tolist():
                bad.append('row_group_offsets=%s: wrote %d rows, read back %s' % (offs, len(df), got))
        except ValueError:
            pass
    df = pd.DataFrame({'x': list(range(1000))})
    fastparquet.write(fn, df, compression={'x': {'args': {'compresslevel': 3}}})
    pf = fastparquet.ParquetFile(fn)
    cmd = pf.fmd.row_groups[0].columns[0].meta_data
    if cmd.codec == 0 and cmd.total_compressed_size != cmd.total_uncompressed_size:
        bad.append('codec dict without type: pages are compressed (%d -> %d bytes) but the chunk records codec UNCOMPRESSED' % (
            cmd.total_uncompressed_size, cmd.total_compressed_size))
    try:
        writer.check_32(2 ** 31)
        bad.append('check_32(2**31) did not raise')
    except OverflowError:
        pass
finally:
    shutil.rmtree(d)
if bad:
    print('FAIL:', *bad, sep='\n  '); sys.exit(1)
print('OK')
