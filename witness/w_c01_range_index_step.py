"""Witness (C01/C17): a frame whose automatic RangeIndex has a negative step (e.g. a reversed frame) is written
with the range recorded in the pandas metadata; reading must regenerate a range of the same length.  The
regenerated stop was start + size*step + 1, which for step == -1 yields size-1 labels and the read raises."""
import os, shutil, sys, tempfile
import pandas as pd, fastparquet
d = tempfile.mkdtemp(); bad = []
try:
    for idx in (pd.RangeIndex(10, 0, -1), pd.RangeIndex(7, -1, -1), pd.RangeIndex(10, 0, -2), pd.RangeIndex(3, 13, 2),
                pd.RangeIndex(5, 15), pd.RangeIndex(0, -12, -3), pd.RangeIndex(1, 0, -1)):
        df = pd.DataFrame({'a': list(range(len(idx)))}, index=idx)
        fn = os.path.join(d, 'x.parq')
        fastparquet.write(fn, df)
        try:
            out = fastparquet.ParquetFile(fn).to_pandas()
            if list(out.index) != list(df.index) or list(out.a) != list(df.a):
                bad.append('%r: read back index %r' % (idx, out.index))
        except Exception as e:
            bad.append('%r: %r' % (idx, e))
finally:
    shutil.rmtree(d)
if bad:
    print('FAIL:', *bad, sep='\n  '); sys.exit(1)
print('OK')
