"""Witness (C01): timedelta columns of every resolution round-trip.  writer.convert scaled only timedelta64[ns] to
the microseconds that the TIME_MICROS annotation declares; s / ms columns were stored with their raw counts."""
import os, shutil, sys, tempfile, warnings
import numpy as np, pandas as pd, fastparquet
warnings.simplefilter('ignore')
d = tempfile.mkdtemp(); fn = os.path.join(d, 'a.parq'); bad = []
try:
    for unit in ('s', 'ms', 'us', 'ns'):
        for hn in (True, False):
            s = pd.Series(np.array([1, 90061, 'NaT', -5], dtype='m8[s]').astype('m8[%s]' % unit))
            df = pd.DataFrame({'t': s})
            tag = 'timedelta64[%s] has_nulls=%s' % (unit, hn)
            try:
                fastparquet.write(fn, df, has_nulls=hn)
                out = fastparquet.ParquetFile(fn).to_pandas()
                if list(out.t.isna()) != list(df.t.isna()) or list(out.t.dropna().astype('m8[ns]')) != list(df.t.dropna().astype('m8[ns]')):
                    bad.append('%s: wrote %s read %s' % (tag, list(df.t.astype(str)), list(out.t.astype(str))))
            except Exception as e:
                bad.append('%s: %r' % (tag, e))
finally:
    shutil.rmtree(d)
if bad:
    print('FAIL:', *bad, sep='\n  '); sys.exit(1)
print('OK')
