"""Witness (C01/C03): data-page version 2 round trips for every column kind, codec and page split.  Found with it:
(a) nullable (masked) columns with more than one v2 page per chunk failed (levels decoded into the start of the whole
mask); (b) LZ4 + categorical failed (decompressed buffer object sliced directly).  The remaining failure - an
all-null column split into uncompressed pages - is known finding K03 (zero-length read) and is skipped here."""
import os, shutil, sys, tempfile, warnings
import numpy as np, pandas as pd, fastparquet
from fastparquet import writer
warnings.simplefilter('ignore')
writer.DATAPAGE_VERSION = 2
d = tempfile.mkdtemp(); fn = os.path.join(d, 'a.parq'); bad = []
n = 300
df = pd.DataFrame({'x': np.arange(n, dtype='int64'), 'f': np.arange(n) / 7., 's': ['a%d' % (i % 17) for i in range(n)],
                   'ni': pd.array([i if i % 3 else None for i in range(n)], dtype='Int64'),
                   'nb': pd.array([bool(i % 2) if i % 3 else None for i in range(n)], dtype='boolean'),
                   'fn': [i / 3. if i % 4 else np.nan for i in range(n)],
                   'so': [('s%d' % i if i % 5 else None) for i in range(n)],
                   'c': pd.Categorical(['k%d' % (i % 7) for i in range(n)]),
                   'cn': pd.Categorical([('k%d' % (i % 7) if i % 4 else None) for i in range(n)]),
                   'b': [bool(i % 2) for i in range(n)],
                   't': pd.date_range('2020', periods=n, freq='h')})
old = writer.MAX_PAGE_SIZE
try:
    for ps in (None, 400):
        writer.MAX_PAGE_SIZE = ps or old
        for comp in ('LZ4', 'SNAPPY', 'GZIP', 'ZSTD', None):
            for col in df.columns:
                try:
                    fastparquet.write(fn, df[[col]], compression=comp)
                    out = fastparquet.ParquetFile(fn).to_pandas()
                    a = out[col].astype(object).where(out[col].notna(), None).tolist()
                    b = df[col].astype(object).where(df[col].notna(), None).tolist()
                    if a != b:
                        bad.append('page_size=%s %s %s: values differ' % (ps, comp, col))
                except Exception as e:
                    bad.append('page_size=%s %s %s: %r' % (ps, comp, col, e))
finally:
    writer.MAX_PAGE_SIZE = old
    shutil.rmtree(d)
if bad:
    print('FAIL (%d):' % len(bad), *bad[:12], sep='\n  '); sys.exit(1)
print('OK')
