"""C02 (repaired dc4d88d): compression={'x': {}} / {'_default': {}} recorded codec GZIP while v1 data pages and
dictionary pages were left uncompressed: the file could not be read back."""
import os, sys, tempfile
import numpy as np, pandas as pd, fastparquet
import fastparquet.writer as w

bad = []
d = tempfile.mkdtemp()
df = pd.DataFrame({'x': np.arange(100), 'c': pd.Categorical(list('ab') * 50)})
keep = w.DATAPAGE_VERSION
for spec in ({'x': {}}, {'_default': {}}, {'x': {}, '_default': 'GZIP'}):
    for v in (1, 2):
        w.DATAPAGE_VERSION = v
        fn = os.path.join(d, 'a.parq')
        try:
            fastparquet.write(fn, df, compression=spec)
            out = fastparquet.ParquetFile(fn).to_pandas()
            if out.x.tolist() != df.x.tolist() or out.c.astype(str).tolist() != df.c.astype(str).tolist():
                bad.append('%r v%d: values differ' % (spec, v))
        except Exception as e:
            bad.append('%r v%d: %s: %s' % (spec, v, type(e).__name__, e))
w.DATAPAGE_VERSION = keep
if bad:
    print('\n'.join(bad)); sys.exit(1)
print('OK')
