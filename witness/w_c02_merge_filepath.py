"""Witness (C02/C14): _metadata written by merge() through the footer fast path (>=3 files,
verify_schema=False) must carry file_path on every column chunk - an unset file_path means
"the data is in this (metadata) file"."""
import os, sys, tempfile, shutil
sys.path.insert(0, os.path.dirname(os.path.abspath(__file__)))
import pandas as pd
from fastparquet import write
from fastparquet.writer import merge
import miniparquet
d = tempfile.mkdtemp()
try:
    files = []
    for i in range(4):
        fn = os.path.join(d, "f%d.parquet" % i)
        write(fn, pd.DataFrame({"a": [i, i + 1], "b": [1.0, 2.0], "c": ["x", "y"]}))
        files.append(fn)
    merge(files, verify_schema=False)
    fmd = miniparquet.footer(os.path.join(d, "_metadata"))
    missing = []
    for r, rg in enumerate(fmd[4]):
        for c, chunk in enumerate(rg[1]):
            if 1 not in chunk:
                missing.append((r, c))
    if missing:
        print("FAIL: chunks without file_path in _metadata (row group, column):", missing)
        sys.exit(1)
    print("OK")
finally:
    shutil.rmtree(d)
