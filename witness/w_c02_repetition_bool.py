"""Witness (C02/C10): with has_nulls='infer' SchemaElement.repetition_type (IDL: enum = i32,
field id 3) must be serialised with the i32 wire type (compact type nibble 5), not as a
BOOLEAN (nibble 1/2).  Uses its own minimal compact-protocol walker."""
import os, tempfile, shutil, struct, sys
import pandas as pd
from fastparquet import write

def varint(b, p):
    r = s = 0
    while True:
        x = b[p]; p += 1
        r |= (x & 0x7f) << s
        if not x & 0x80: return r, p
        s += 7

def skip(b, p, t):
    if t in (1, 2): return p
    if t == 3: return p + 1
    if t in (4, 5, 6): return varint(b, p)[1]
    if t == 7: return p + 8
    if t == 8:
        n, p = varint(b, p); return p + n
    if t in (9, 10):
        h = b[p]; p += 1
        n = h >> 4
        if n == 15: n, p = varint(b, p)
        for _ in range(n): p = skip(b, p, h & 15)
        return p
    if t == 12:
        return struct_fields(b, p)[1]
    raise ValueError(t)

def struct_fields(b, p):
    fid = 0; out = []
    while True:
        h = b[p]; p += 1
        if h == 0: return out, p
        d = h >> 4; t = h & 15
        if d == 0:
            z, p = varint(b, p); fid = (z >> 1) ^ -(z & 1)
        else: fid += d
        start = p
        p = skip(b, p, t)
        out.append((fid, t, start))

d = tempfile.mkdtemp()
try:
    fn = os.path.join(d, "a.parquet")
    write(fn, pd.DataFrame({"i": [1, 2], "s": ["a", "b"]}), has_nulls="infer")
    raw = open(fn, "rb").read()
    n = struct.unpack("<I", raw[-8:-4])[0]
    foot = raw[-8 - n:-8]
    fields, _ = struct_fields(foot, 0)
    # field 2 = schema: list<SchemaElement>
    f2 = [f for f in fields if f[0] == 2][0]
    p = f2[2]; h = foot[p]; p += 1
    cnt = h >> 4
    if cnt == 15: cnt, p = varint(foot, p)
    bad = []
    for k in range(cnt):
        fs, p = struct_fields(foot, p)
        for fid, t, _ in fs:
            if fid == 3 and t != 5:
                bad.append((k, t))
    if bad:
        print("FAIL: repetition_type (id 3) serialised with wire type(s)", bad, "expected 5 (i32)")
        sys.exit(1)
    print("OK")
finally:
    shutil.rmtree(d)
