"""Witness (C03): a version-1 data page may declare its definition levels with the deprecated BIT_PACKED level
encoding (levels packed MSB first, no length prefix).  The reader does not support it - and must therefore refuse the
page rather than decode the level bytes as an RLE/bit-packed hybrid stream with a length prefix.
The file is built from the specification."""
import os, shutil, struct, sys, tempfile
import numpy as np, pandas as pd
from fastparquet import ParquetFile, parquet_thrift, writer
from fastparquet.cencoding import ThriftObject


def write_v1(fn, values):
    n = len(values)
    df = pd.DataFrame({"x": pd.array(values, dtype="Int32")})
    fmd = writer.make_metadata(df, has_nulls=True)
    se = fmd.schema[1]
    levels = [0 if v is None else 1 for v in values]
    bits = ''.join(str(b) for b in levels)
    bits += '0' * (-len(bits) % 8)
    dl = bytes(int(bits[i:i + 8], 2) for i in range(0, len(bits), 8))     # MSB first, no prefix
    data = np.array([v for v in values if v is not None], dtype="<i4").tobytes()
    page = dl + data
    with open(fn, "wb") as f:
        f.write(b"PAR1"); start = f.tell()
        dph = parquet_thrift.DataPageHeader(num_values=n, encoding=parquet_thrift.Encoding.PLAIN,
                                            definition_level_encoding=parquet_thrift.Encoding.BIT_PACKED,
                                            repetition_level_encoding=parquet_thrift.Encoding.BIT_PACKED, i32=1)
        ph = parquet_thrift.PageHeader(type=parquet_thrift.PageType.DATA_PAGE, uncompressed_page_size=len(page),
                                       compressed_page_size=len(page), data_page_header=dph, i32=1)
        writer.write_thrift(f, ph); f.write(page); size = f.tell() - start
        cmd = ThriftObject.from_fields("ColumnMetaData", type=se.type, path_in_schema=["x"],
                                       encodings=[parquet_thrift.Encoding.PLAIN, parquet_thrift.Encoding.BIT_PACKED],
                                       codec=0, num_values=n, data_page_offset=start, total_uncompressed_size=size,
                                       total_compressed_size=size, i32list=[1, 4])
        chunk = parquet_thrift.ColumnChunk(file_offset=start, meta_data=cmd, file_path=None)
        rg = ThriftObject.from_fields("RowGroup", num_rows=n, columns=[chunk], total_byte_size=size)
        fmd.row_groups = [rg]; fmd.num_rows = n
        fmd.created_by = b"spec-encoder"
        foot = writer.write_thrift(f, fmd); f.write(struct.pack("<I", foot)); f.write(b"PAR1")


tmp = tempfile.mkdtemp(); bad = []
try:
    for n in (8, 16, 40):
        values = [(i * 7 + 1) if i % 3 else None for i in range(n)]
        fn = os.path.join(tmp, "bp_%d.parquet" % n)
        write_v1(fn, values)
        try:
            got = ParquetFile(fn).to_pandas()["x"]
            got = [None if pd.isna(v) else int(v) for v in got]
            if got != values:
                bad.append("n=%d: decoded to wrong values without an error: %s... (encoded %s...)" % (n, got[:6], values[:6]))
        except NotImplementedError:
            pass                     # a refusal is what the property asks for
        except Exception as e:
            bad.append("n=%d: not refused, failed with %r" % (n, e))
finally:
    shutil.rmtree(tmp)
if bad:
    print("FAIL:", *bad, sep="\n  "); sys.exit(1)
print("OK")
