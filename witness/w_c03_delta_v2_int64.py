"""Witness (C03/C11): a DELTA_BINARY_PACKED INT64 column on a DATA_PAGE_V2 must decode to its
input.  The v1 page reader passes longval to the delta decoder; the v2 reader does not, so the
32-bit decoder writes into a 64-bit output.  The file is built from the specification."""
import os, shutil, struct, sys, tempfile
import numpy as np, pandas as pd
from fastparquet import ParquetFile, parquet_thrift, writer
from fastparquet.cencoding import ThriftObject
BLOCK, MINIBLOCKS = 128, 4
PER_MINI = BLOCK // MINIBLOCKS
def uvarint(x):
    out = bytearray()
    while x > 127:
        out.append((x & 0x7F) | 0x80); x >>= 7
    out.append(x); return bytes(out)
def zigzag(n): return (n << 1) ^ (n >> 63)
def bitpack(vals, width):
    acc = nbits = 0; out = bytearray()
    for v in vals:
        acc |= v << nbits; nbits += width
        while nbits >= 8:
            out.append(acc & 0xFF); acc >>= 8; nbits -= 8
    if nbits: out.append(acc & 0xFF)
    return bytes(out)
def delta_encode(values):
    values = [int(v) for v in values]
    out = bytearray(uvarint(BLOCK) + uvarint(MINIBLOCKS) + uvarint(len(values)) + uvarint(zigzag(values[0])))
    deltas = [b - a for a, b in zip(values[:-1], values[1:])]
    for start in range(0, len(deltas), BLOCK):
        block = deltas[start:start + BLOCK]
        md = min(block); rel = [d - md for d in block] + [0] * (BLOCK - len(block))
        out += uvarint(zigzag(md))
        minis = [rel[i:i + PER_MINI] for i in range(0, BLOCK, PER_MINI)]
        widths = [max(m).bit_length() for m in minis]
        out += bytes(widths)
        for m, w in zip(minis, widths):
            if w: out += bitpack(m, w)
    return bytes(out)
def write_v2(fn, values):
    df = pd.DataFrame({"x": values})
    fmd = writer.make_metadata(df, has_nulls=False)
    se = fmd.schema[1]; n = len(values); page = delta_encode(values)
    enc = parquet_thrift.Encoding.DELTA_BINARY_PACKED
    with open(fn, "wb") as f:
        f.write(b"PAR1"); start = f.tell()
        dph = parquet_thrift.DataPageHeaderV2(num_values=n, num_nulls=0, num_rows=n, encoding=enc,
                                              definition_levels_byte_length=0, repetition_levels_byte_length=0,
                                              is_compressed=False, i32=1)
        ph = parquet_thrift.PageHeader(type=parquet_thrift.PageType.DATA_PAGE_V2, uncompressed_page_size=len(page),
                                       compressed_page_size=len(page), data_page_header_v2=dph, i32=1)
        writer.write_thrift(f, ph); f.write(page); size = f.tell() - start
        cmd = ThriftObject.from_fields("ColumnMetaData", type=se.type, path_in_schema=["x"], encodings=[enc], codec=0,
                                       num_values=n, data_page_offset=start, total_uncompressed_size=size,
                                       total_compressed_size=size, i32list=[1, 4])
        chunk = parquet_thrift.ColumnChunk(file_offset=start, meta_data=cmd, file_path=None)
        rg = ThriftObject.from_fields("RowGroup", num_rows=n, columns=[chunk], total_byte_size=size)
        fmd.row_groups = [rg]; fmd.num_rows = n
        fmd.created_by = b"spec-encoder"
        foot = writer.write_thrift(f, fmd); f.write(struct.pack("<I", foot)); f.write(b"PAR1")
tmp = tempfile.mkdtemp()
bad = []
try:
    rng = np.random.default_rng(3)
    for dtype, base in (("int32", 1000), ("int64", 10 ** 12)):
        for n in (2, 33, 129):
            values = (base + np.cumsum(rng.integers(-1000, 1000, size=n))).astype(dtype)
            fn = os.path.join(tmp, "d_%s_%d.parquet" % (dtype, n))
            write_v2(fn, values)
            try:
                got = ParquetFile(fn).to_pandas()["x"].values
                if got.shape != values.shape or not (got == values).all():
                    bad.append("%s n=%d: wrote %s..., read %s..." % (dtype, n, values[:3].tolist(), got[:3].tolist()))
            except Exception as e:
                bad.append("%s n=%d: %r" % (dtype, n, e))
finally:
    shutil.rmtree(tmp)
if bad:
    print("FAIL:", *bad, sep="\n  "); sys.exit(1)
print("OK")
