"""Witness (C03/C11): the definition levels of a DATA_PAGE_V2 are an RLE/bit-packed hybrid stream
whose *byte* length is given by definition_levels_byte_length.  The v2 reader bounds the decode by the
page's value count instead; a stream that needs more bytes than it has values (short RLE runs - legal,
e.g. from an encoder that never bit-packs) is cut off and the rest of the level array is uninitialised.
The file is built from the specification."""
import os, shutil, struct, sys, tempfile
import numpy as np, pandas as pd
from fastparquet import ParquetFile, parquet_thrift, writer
from fastparquet.cencoding import ThriftObject


def uvarint(x):
    out = bytearray()
    while x > 127:
        out.append((x & 0x7F) | 0x80); x >>= 7
    out.append(x); return bytes(out)


def rle_runs(levels):
    """every maximal run as an RLE run (never bit-packed); bit width 1 -> one value byte"""
    out = bytearray(); i = 0
    while i < len(levels):
        j = i
        while j < len(levels) and levels[j] == levels[i]:
            j += 1
        out += uvarint((j - i) << 1) + bytes([levels[i]]); i = j
    return bytes(out)


def write_v2(fn, values):
    """values: list of int or None"""
    n = len(values)
    df = pd.DataFrame({"x": pd.array(values, dtype="Int32")})
    fmd = writer.make_metadata(df, has_nulls=True)
    se = fmd.schema[1]
    levels = [0 if v is None else 1 for v in values]
    dl = rle_runs(levels)
    data = np.array([v for v in values if v is not None], dtype="<i4").tobytes()
    page = dl + data
    enc = parquet_thrift.Encoding.PLAIN
    with open(fn, "wb") as f:
        f.write(b"PAR1"); start = f.tell()
        dph = parquet_thrift.DataPageHeaderV2(num_values=n, num_nulls=levels.count(0), num_rows=n, encoding=enc,
                                              definition_levels_byte_length=len(dl), repetition_levels_byte_length=0,
                                              is_compressed=False, i32=1)
        ph = parquet_thrift.PageHeader(type=parquet_thrift.PageType.DATA_PAGE_V2, uncompressed_page_size=len(page),
                                       compressed_page_size=len(page), data_page_header_v2=dph, i32=1)
        writer.write_thrift(f, ph); f.write(page); size = f.tell() - start
        cmd = ThriftObject.from_fields("ColumnMetaData", type=se.type, path_in_schema=["x"], encodings=[enc, parquet_thrift.Encoding.RLE],
                                       codec=0, num_values=n, data_page_offset=start, total_uncompressed_size=size,
                                       total_compressed_size=size, i32list=[1, 4])
        chunk = parquet_thrift.ColumnChunk(file_offset=start, meta_data=cmd, file_path=None)
        rg = ThriftObject.from_fields("RowGroup", num_rows=n, columns=[chunk], total_byte_size=size)
        fmd.row_groups = [rg]; fmd.num_rows = n
        fmd.created_by = b"spec-encoder"
        foot = writer.write_thrift(f, fmd); f.write(struct.pack("<I", foot)); f.write(b"PAR1")


tmp = tempfile.mkdtemp()
bad = []
try:
    for n in (4, 16, 64, 200):
        # alternate valid / null: every run has length one, two bytes per value
        values = [(i * 7 + 1) if i % 2 == 0 else None for i in range(n)]
        fn = os.path.join(tmp, "lv_%d.parquet" % n)
        write_v2(fn, values)
        for trial in range(3):
            # dirty the allocator so uninitialised level bytes are visible
            junk = [np.full(n, 1, dtype="uint8") for _ in range(50)]; del junk
            try:
                got = ParquetFile(fn).to_pandas()["x"]
                got = [None if pd.isna(v) else int(v) for v in got]
                if got != values:
                    k = next(i for i, (a, b) in enumerate(zip(got, values)) if a != b)
                    bad.append("n=%d: first difference at row %d: wrote %r read %r" % (n, k, values[k], got[k]))
                    break
            except Exception as e:
                bad.append("n=%d: %r" % (n, e)); break
finally:
    shutil.rmtree(tmp)
if bad:
    print("FAIL:", *bad, sep="\n  "); sys.exit(1)
print("OK")
