"""Witness (C04): pf.statistics after the handle's row groups changed must describe the new row groups (it was
cached once and never dropped)."""
import shutil, sys, tempfile, warnings
import pandas as pd, fastparquet
warnings.simplefilter('ignore')
d = tempfile.mkdtemp(); bad = []
try:
    fastparquet.write(d, pd.DataFrame({'x': [1, 2, 3, 4]}), file_scheme='hive', row_group_offsets=[0, 2])
    pf = fastparquet.ParquetFile(d)
    _ = pf.statistics
    pf.write_row_groups(pd.DataFrame({'x': [10, 11]}))
    if [int(v) for v in pf.statistics['max']['x']] != [2, 4, 11]:
        bad.append('after write_row_groups: pf.statistics max = %s, row groups now hold maxima [2, 4, 11]' % pf.statistics['max']['x'])
    pf.remove_row_groups(pf.row_groups[:1])
    if [int(v) for v in pf.statistics['max']['x']] != [4, 11]:
        bad.append('after remove_row_groups: pf.statistics max = %s, expected [4, 11]' % pf.statistics['max']['x'])
finally:
    shutil.rmtree(d, ignore_errors=True)
if bad:
    print('FAIL:', *bad, sep='\n  '); sys.exit(1)
print('OK')
