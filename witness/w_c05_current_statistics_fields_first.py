"""C05 (repaired cc944bd): pruning took the deprecated min / max fields before min_value / max_value.  A chunk that
carries both (deprecated ones in another order, as old writers left them for text) was judged by the deprecated pair."""
import os, sys, tempfile
import pandas as pd, fastparquet
from fastparquet.api import filter_row_groups

d = tempfile.mkdtemp(); fn = os.path.join(d, 'a.parq')
fastparquet.write(fn, pd.DataFrame({'x': [10, 20, 30]}), stats=True)
pf = fastparquet.ParquetFile(fn)
st = pf.row_groups[0].columns[0].meta_data.statistics
good_min, good_max = st.min, st.max
st.min_value, st.max_value = good_min, good_max
st.min, st.max = good_max, good_max          # a misleading deprecated pair: min = max = 30
kept = filter_row_groups(pf, [('x', '==', 10)])
if len(kept) != 1:
    print('the row group holding x == 10 was pruned on the deprecated bounds'); sys.exit(1)
print('OK')
