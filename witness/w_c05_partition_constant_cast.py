"""Witness (C05/C13): filtering a numeric partition column with a numeric constant of another kind must not lose
qualifying rows.  filter_out_cats cast the constant to the partition's recorded type (2.5 -> 2), so `p < 2.5`,
`p != 2.5` and `p not in [2.5]` pruned the partition p=2 although all its rows qualify."""
import os, shutil, sys, tempfile
import pandas as pd, fastparquet
d = tempfile.mkdtemp(); bad = []
try:
    df = pd.DataFrame({'p': [1, 1, 2, 2, 3, 3], 'x': [0., 1, 2, 3, 4, 5]})
    fastparquet.write(d, df, file_scheme='hive', partition_on=['p'])
    pf = fastparquet.ParquetFile(d)
    ops = {'<': lambda a, b: a < b, '<=': lambda a, b: a <= b, '>': lambda a, b: a > b, '>=': lambda a, b: a >= b,
           '==': lambda a, b: a == b, '!=': lambda a, b: a != b, 'in': lambda a, b: a in b, 'not in': lambda a, b: a not in b}
    for op, c in [('<', 2.5), ('<=', 2.5), ('>', 1.5), ('>=', 1.5), ('!=', 2.5), ('==', 2.0), ('in', [2.0, 3.5]), ('not in', [2.5]),
                  ('<', 2), ('>', 2), ('!=', 2), ('in', [1, 3]), ('not in', [1, 3])]:
        want = sorted(x for p, x in zip(df.p, df.x) if ops[op](p, c))
        got = sorted(pf.to_pandas(filters=[('p', op, c)]).x)
        missing = [x for x in want if x not in got]
        if missing:
            bad.append("('p', %r, %r): qualifying rows x=%s were pruned (got x=%s)" % (op, c, missing, got))
finally:
    shutil.rmtree(d)
if bad:
    print('FAIL:', *bad, sep='\n  '); sys.exit(1)
print('OK')
