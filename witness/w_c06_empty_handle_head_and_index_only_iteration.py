"""C06 (repaired 658c240, 2f396af): head(n) of a handle without row groups; iter_row_groups when every selected column
is the index.  Both must agree with the full read."""
import os, sys, tempfile
import numpy as np, pandas as pd, fastparquet

d = tempfile.mkdtemp()
df = pd.DataFrame({'x': np.arange(6), 'y': list('aabbcc'), 'z': np.arange(6) * 1.5})
fn = os.path.join(d, 'a.parq')
fastparquet.write(fn, df, row_group_offsets=[0, 2, 4])
pf = fastparquet.ParquetFile(fn)
bad = []
try:
    h = pf[0:0].head(2)
    if len(h) != 0 or list(h.columns) != list(pf[0:0].to_pandas().columns):
        bad.append('head of an empty selection: %r' % h)
except Exception as e:
    bad.append('head of an empty selection raised %s: %s' % (type(e).__name__, e))
for cols in (['x'], []):
    full = pf.to_pandas(columns=cols, index='x')
    parts = list(pf.iter_row_groups(columns=cols, index='x'))
    got = sum(len(p) for p in parts)
    if got != len(full):
        bad.append('iter_row_groups(columns=%r, index="x") yields %d rows in %d frames, the full read has %d' % (cols, got, len(parts), len(full)))
    elif list(pd.concat(parts).index) != list(full.index):
        bad.append('index values differ')
if bad:
    print('\n'.join(bad)); sys.exit(1)
print('OK')
