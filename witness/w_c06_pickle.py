"""Witness F3 (C06): a pickled handle of a file without pandas metadata reads."""
import pickle, copy, os
from fastparquet import ParquetFile
import fastparquet
td = os.path.join(os.path.dirname(os.path.dirname(fastparquet.__file__)), "test-data")
pf = ParquetFile(os.path.join(td, "nation.impala.parquet"))
a = pf.to_pandas()
b = pickle.loads(pickle.dumps(pf)).to_pandas()
c = copy.copy(pf).to_pandas()
assert a.equals(b) and a.equals(c)
print("OK")
