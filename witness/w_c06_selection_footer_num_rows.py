"""C06 / C02 (repaired ba88f1f): the footer of a row-group selection kept the parent's total num_rows."""
import os, sys, tempfile, pickle
import numpy as np, pandas as pd, fastparquet

d = tempfile.mkdtemp()
fn = os.path.join(d, 'a.parq')
fastparquet.write(fn, pd.DataFrame({'x': np.arange(6)}), row_group_offsets=[0, 2, 4])
pf = fastparquet.ParquetFile(fn)
bad = []
for sel in (pf[0], pf[1:], pf[0:0], pickle.loads(pickle.dumps(pf[1:]))):
    n = len(sel.to_pandas())
    if sel.fmd.num_rows != n or sel.count() != n:
        bad.append('selection reads %d rows, its footer says %d, count() %d' % (n, sel.fmd.num_rows, sel.count()))
if bad:
    print('\n'.join(bad)); sys.exit(1)
print('OK')
