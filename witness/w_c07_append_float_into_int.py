"""Witness (C07/C18/C17): appending a float frame to an integer column.  (a) Non-integral or infinite values have no
integer form: the append must be refused and leave the dataset as it was (they used to be truncated / turned into the
smallest integer silently); (b) NaN in an OPTIONAL integer column is a legitimate null: after the append the dataset
must still be readable, with a nullable dtype (it used to raise TypeError on NA because the dtype was taken from the
pandas metadata alone)."""
import os, shutil, sys, tempfile, warnings
import numpy as np, pandas as pd, fastparquet
warnings.simplefilter('ignore')
bad = []
for scheme in ('simple', 'hive'):
    d = tempfile.mkdtemp()
    try:
        fn = os.path.join(d, 'a.parq') if scheme == 'simple' else d
        fastparquet.write(fn, pd.DataFrame({'x': [1, 2, 3]}), file_scheme=scheme)
        for odd in (1e30, float('inf')):
            try:
                fastparquet.write(fn, pd.DataFrame({'x': [odd]}), file_scheme=scheme, append=True)
                bad.append('%s: %r appended to an int column without complaint' % (scheme, odd))
            except ValueError:
                pass
        try:
            fastparquet.write(fn, pd.DataFrame({'x': [4.5]}), file_scheme=scheme, append=True)
            got = fastparquet.ParquetFile(fn).to_pandas().x.tolist()
            bad.append('%s: 4.5 appended to an int column without complaint, reads back %s' % (scheme, got))
        except ValueError:
            got = fastparquet.ParquetFile(fn).to_pandas().x.tolist()
            if got != [1, 2, 3]:
                bad.append('%s: refused append changed the dataset: %s' % (scheme, got))
        fastparquet.write(fn, pd.DataFrame({'x': [np.nan, 6.0]}), file_scheme=scheme, append=True)
        try:
            pf = fastparquet.ParquetFile(fn)
            got = [None if pd.isna(v) else int(v) for v in pf.to_pandas().x]
            if got != [1, 2, 3, None, 6]:
                bad.append('%s: after appending [nan, 6.0]: %s' % (scheme, got))
            if 'Int64' not in str(pf.dtypes['x']):
                bad.append('%s: handle reports %s for a column that now holds a null' % (scheme, pf.dtypes['x']))
        except Exception as e:
            bad.append('%s: dataset unreadable after appending a null into the int column: %r' % (scheme, e))
    finally:
        shutil.rmtree(d, ignore_errors=True)
if bad:
    print('FAIL:', *bad, sep='\n  '); sys.exit(1)
print('OK')
