"""C07 / C18 (repaired 28da23c): integers appended to a column of another integer type must fit the column's own type
(int8 / uint8 / uint32 ... are stored in 32 or 64 bits; equal widths differ in sign)."""
import os, sys, tempfile
import numpy as np, pandas as pd, fastparquet

d = tempfile.mkdtemp(); bad = []
cases = [('int8', [1, 2], 'int64', [300], False), ('uint8', [1, 2], 'int32', [-1], False), ('uint32', [1, 2], 'int32', [-1], False),
         ('int64', [1, 2], 'uint64', [2 ** 63 + 5], False), ('uint64', [1], 'int64', [-1], False), ('int32', [1], 'int64', [2 ** 40], False),
         ('int8', [1, 2], 'int64', [100], True), ('uint32', [1], 'int64', [2 ** 32 - 1], True), ('int64', [1], 'uint64', [7], True),
         ('uint64', [1], 'int64', [5], True)]
for scheme in ('simple', 'hive'):
    for i, (dt0, v0, dt1, v1, fits) in enumerate(cases):
        fn = os.path.join(d, '%s_%d' % (scheme, i))
        fastparquet.write(fn, pd.DataFrame({'x': np.array(v0, dtype=dt0)}), file_scheme=scheme)
        try:
            fastparquet.write(fn, pd.DataFrame({'x': np.array(v1, dtype=dt1)}), file_scheme=scheme, append=True)
            got = fastparquet.ParquetFile(fn).to_pandas().x.tolist()
            if got != v0 + v1:
                bad.append('%s: %s %r appended to a %s column: read back %r' % (scheme, dt1, v1, dt0, got))
        except ValueError:
            if fits:
                bad.append('%s: %s %r fits a %s column but was refused' % (scheme, dt1, v1, dt0))
            elif fastparquet.ParquetFile(fn).to_pandas().x.tolist() != v0:
                bad.append('%s: dataset changed by the refused append' % scheme)
if bad:
    print('\n'.join(bad)); sys.exit(1)
print('OK')
