"""C07 / C19 (repaired c3d5dec, 47fd7f8): (a) plain strings appended to a column the dataset declares categorical: the
append succeeded and the dataset could not be read any more; (b) a text value appended to an integer-typed hive
partition column: the next open fell back to drill parsing and the partition column became dir0 = 'k=1'.  Both are
now refused before anything is written."""
import os, sys, tempfile, warnings
import pandas as pd, fastparquet
warnings.simplefilter('ignore')

d = tempfile.mkdtemp(); bad = []
for scheme in ('simple', 'hive'):
    fn = os.path.join(d, 'a_' + scheme)
    fastparquet.write(fn, pd.DataFrame({'c': pd.Categorical(['a', 'b'])}), file_scheme=scheme)
    try:
        fastparquet.write(fn, pd.DataFrame({'c': ['a', 'c']}), file_scheme=scheme, append=True)
    except ValueError:
        pass
    try:
        got = fastparquet.ParquetFile(fn).to_pandas().c.astype(str).tolist()
        if got not in (['a', 'b'], ['a', 'b', 'a', 'c']):
            bad.append('%s: after appending strings to a categorical column the dataset reads %r' % (scheme, got))
    except Exception as e:
        bad.append('%s: after appending strings to a categorical column the dataset cannot be read: %s' % (scheme, type(e).__name__))
dn = os.path.join(d, 'h')
fastparquet.write(dn, pd.DataFrame({'x': [1, 2], 'k': [1, 2]}), file_scheme='hive', partition_on=['k'])
try:
    fastparquet.write(dn, pd.DataFrame({'x': [3], 'k': ['z']}), file_scheme='hive', partition_on=['k'], append=True)
except ValueError:
    pass
out = fastparquet.ParquetFile(dn).to_pandas()
if 'k' not in out.columns or sorted(out.x.tolist())[:2] != [1, 2]:
    bad.append('after appending k="z" to an integer partition the dataset has columns %r' % list(out.columns))
fastparquet.write(dn, pd.DataFrame({'x': [4], 'k': [7]}), file_scheme='hive', partition_on=['k'], append=True)
if sorted(fastparquet.ParquetFile(dn).to_pandas().k.astype(int).tolist()) != [1, 2, 7]:
    bad.append('a fitting partition value is no longer accepted')
if bad:
    print('\n'.join(bad)); sys.exit(1)
print('OK')
