"""C07 (repaired 49815bb): int64 rows appended to an INT32 column kept their low 32 bits only (2**40 + 5 read back as 5).
Now refused; values that fit are still appended."""
import os, sys, tempfile
import numpy as np, pandas as pd, fastparquet

bad = []
d = tempfile.mkdtemp()
for scheme in ('simple', 'hive'):
    fn = os.path.join(d, 'a_' + scheme)
    fastparquet.write(fn, pd.DataFrame({'x': np.array([1, 2], dtype='int32')}), file_scheme=scheme)
    try:
        fastparquet.write(fn, pd.DataFrame({'x': np.array([2 ** 40 + 5, 3], dtype='int64')}), file_scheme=scheme, append=True)
        got = fastparquet.ParquetFile(fn).to_pandas().x.tolist()
        if got != [1, 2, 2 ** 40 + 5, 3]:
            bad.append('%s: appended [2**40+5, 3], read back %r' % (scheme, got))
    except ValueError:
        pass
    if fastparquet.ParquetFile(fn).to_pandas().x.tolist() != [1, 2]:
        bad.append('%s: dataset changed by the refused append' % scheme)
    fastparquet.write(fn, pd.DataFrame({'x': np.array([7, -3], dtype='int64')}), file_scheme=scheme, append=True)
    if fastparquet.ParquetFile(fn).to_pandas().x.tolist() != [1, 2, 7, -3]:
        bad.append('%s: fitting int64 values not appended' % scheme)
if bad:
    print('\n'.join(bad)); sys.exit(1)
print('OK')
