"""C08 (repaired fa3211b): under the drill layout the partition levels are read back as dir0, dir1 ...; a data column of
that name was written without complaint and hidden on read.  Now refused before anything is written."""
import os, sys, tempfile
import pandas as pd, fastparquet

d = tempfile.mkdtemp(); dn = os.path.join(d, 'h')
df = pd.DataFrame({'a': ['x', 'y', 'x'], 'dir0': [100, 200, 300], 'v': [1, 2, 3]})
try:
    fastparquet.write(dn, df, file_scheme='drill', partition_on=['a'])
    out = fastparquet.ParquetFile(dn).to_pandas()
    if sorted(out['dir0'].tolist()) != [100, 200, 300]:
        print('column dir0 written as [100, 200, 300] reads back %r' % out['dir0'].tolist()); sys.exit(1)
except ValueError:
    pass
print('OK')
