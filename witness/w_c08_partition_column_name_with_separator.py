"""C08 (repaired 9205962): a hive partition column called `a=b` was written as directories a=b=1 and read back as a
plain (drill) level dir0 = 'a=b=1'; now refused before anything is written."""
import os, sys, tempfile
import numpy as np, pandas as pd, fastparquet

d = tempfile.mkdtemp(); dn = os.path.join(d, 'h')
df = pd.DataFrame({'x': np.arange(4), 'a=b': [1, 1, 2, 2]})
try:
    fastparquet.write(dn, df, file_scheme='hive', partition_on=['a=b'])
    out = fastparquet.ParquetFile(dn).to_pandas()
    if sorted(out.columns) != sorted(df.columns):
        print('written without complaint, read back with columns %r' % list(out.columns)); sys.exit(1)
except ValueError:
    pass
print('OK')
