"""Witness (C08): a text partition value containing '/', a backslash or (hive) '=' cannot be represented as one
directory level.  It was written anyway (nested directories / ambiguous segment) and the dataset silently lost its
partition column or truncated the values.  Either the round trip works or the write is refused - silent loss is the
defect."""
import os, shutil, sys, tempfile, warnings
import pandas as pd, fastparquet
warnings.simplefilter('ignore')
bad = []
for scheme in ('hive', 'drill'):
    for val in ('a/b', 'a\\b', 'a=b'):
        d = tempfile.mkdtemp()
        try:
            df = pd.DataFrame({'k': [val, 'plain', val], 'v': [1, 2, 3]})
            try:
                fastparquet.write(d, df, file_scheme=scheme, partition_on=['k'])
            except ValueError:
                continue            # refused: acceptable
            try:
                out = fastparquet.ParquetFile(d).to_pandas()
                col = 'k' if scheme == 'hive' else 'dir0'
                got = sorted(zip(out[col].astype(str), out.v)) if col in out else None
                if got != sorted(zip(df.k, df.v)):
                    bad.append('%s %r: written without complaint, read back %s' % (scheme, val, got))
            except Exception as e:
                bad.append('%s %r: written without complaint, read raised %r' % (scheme, val, e))
        finally:
            shutil.rmtree(d, ignore_errors=True)
if bad:
    print('FAIL:', *bad, sep='\n  '); sys.exit(1)
print('OK')
