"""C08 / C14 (repaired 1f8c59e): directory names without a recorded partition type that are words were read as
timestamps: 'today' became the time of reading, 'jan' a day in year 1, 'NaT' made the dataset unreadable."""
import os, sys, tempfile
import pandas as pd, fastparquet

d = tempfile.mkdtemp(); bad = []
words = ['today', 'jan', 'NaT', 'may', 'Now']
for w in words:
    os.makedirs(os.path.join(d, w))
    fastparquet.write(os.path.join(d, w, 'part.0.parquet'), pd.DataFrame({'x': [1]}))
try:
    pf = fastparquet.ParquetFile(d)
    got = sorted(str(v) for v in pf.to_pandas()['dir0'])
    if got != sorted(words):
        bad.append('directories %r came back as %r' % (sorted(words), got))
except Exception as e:
    bad.append('the dataset cannot be read: %s: %s' % (type(e).__name__, str(e)[:80]))
from fastparquet.util import val_to_num
if str(val_to_num('2020-01-02')) != '2020-01-02 00:00:00':
    bad.append('dates are no longer recognised')
if bad:
    print('\n'.join(bad)); sys.exit(1)
print('OK')
