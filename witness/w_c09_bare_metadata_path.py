"""C09 (repaired 4639320): a handle opened on the bare relative name `_metadata` has an empty base path; removal and
renaming built '/part.N.parquet' and the files of removed row groups stayed on disk."""
import os, sys, tempfile
import numpy as np, pandas as pd, fastparquet

d = tempfile.mkdtemp(); cwd = os.getcwd(); os.chdir(d)
try:
    fastparquet.write('.', pd.DataFrame({'x': np.arange(6)}), file_scheme='hive', row_group_offsets=[0, 2, 4])
    pf = fastparquet.ParquetFile('_metadata')
    pf.remove_row_groups(pf.row_groups[0])
    files = sorted(f for f in os.listdir('.') if f.startswith('part.'))
    rows = fastparquet.ParquetFile('_metadata').to_pandas().x.tolist()
finally:
    os.chdir(cwd)
if files != ['part.1.parquet', 'part.2.parquet'] or rows != [2, 3, 4, 5]:
    print('after removing the first row group the directory holds %r, rows %r' % (files, rows)); sys.exit(1)
print('OK')
