"""Witness (C10/C07): FileMetaData.key_value_metadata is optional; most files from other writers have none.
Re-serialising such a footer (append, merge, metadata update) must work.  writer.write_thrift iterated the
absent list and raised TypeError: 'NoneType' object is not iterable."""
import os, shutil, sys, tempfile, warnings
import fastparquet
from fastparquet import ParquetFile, write
from fastparquet.writer import merge, update_file_custom_metadata
warnings.simplefilter('ignore')
SRC = '/repo/test-data/nation.impala.parquet'
d = tempfile.mkdtemp(); bad = []
try:
    assert ParquetFile(SRC).fmd.key_value_metadata is None
    base = ParquetFile(SRC).to_pandas()
    a = os.path.join(d, 'a.parquet'); shutil.copy(SRC, a)
    try:
        write(a, base.iloc[:3], append=True)
        got = ParquetFile(a).to_pandas()
        if len(got) != len(base) + 3:
            bad.append('append: %d rows, expected %d' % (len(got), len(base) + 3))
    except Exception as e:
        bad.append('append to a file without key-value metadata: %r' % e)
    b1 = os.path.join(d, 'b1.parquet'); b2 = os.path.join(d, 'b2.parquet'); shutil.copy(SRC, b1); shutil.copy(SRC, b2)
    try:
        merge([b1, b2])
        got = ParquetFile(d + '/_metadata').to_pandas() if os.path.exists(d + '/_metadata') else None
    except Exception as e:
        bad.append('merge of files without key-value metadata: %r' % e)
    c = os.path.join(d, 'c.parquet'); shutil.copy(SRC, c)
    try:
        update_file_custom_metadata(c, {'k': 'v'})
        if ParquetFile(c).key_value_metadata.get('k') != 'v':
            bad.append('metadata update not visible')
    except Exception as e:
        bad.append('metadata update on a file without key-value metadata: %r' % e)
finally:
    shutil.rmtree(d)
if bad:
    print('FAIL:', *bad, sep='\n  '); sys.exit(1)
print('OK')
