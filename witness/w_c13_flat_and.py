"""Witness F2 (C13): a flat filter list means AND under row_filter=True."""
import os, tempfile, shutil
import pandas as pd
from fastparquet import write, ParquetFile
d = tempfile.mkdtemp()
try:
    fn = os.path.join(d, "a.parquet")
    df = pd.DataFrame({"a": list(range(10)), "b": list(range(9, -1, -1))})
    write(fn, df, row_group_offsets=[0, 5])
    pf = ParquetFile(fn)
    flat = pf.to_pandas(filters=[("a", ">", 2), ("b", ">", 2)], row_filter=True)
    nested = pf.to_pandas(filters=[[("a", ">", 2), ("b", ">", 2)]], row_filter=True)
    assert flat.a.tolist() == nested.a.tolist() == [3, 4, 5, 6], (flat.a.tolist(), nested.a.tolist())
    assert pf.count(filters=[("a", ">", 2), ("b", ">", 2)], row_filter=True) == 4
    print("OK")
finally:
    shutil.rmtree(d)
