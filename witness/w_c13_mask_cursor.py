"""Witness (C13): caller-supplied boolean row mask on multi-page v1 chunks.
 (a) a page that contains no selected row is skipped without advancing the mask cursor
     (and the output cursor is advanced by the skipped page's rows);
 (b) with nulls present the mask cursor advances by the number of non-null values of the
     page instead of its number of rows."""
import os, sys, tempfile, shutil
import numpy as np, pandas as pd
import fastparquet.writer as w
from fastparquet import write, ParquetFile
w.MAX_PAGE_SIZE = 100          # ~12 rows per page, as fastparquet's own test_pagesize does
d = tempfile.mkdtemp()
bad = []
try:
    fn = os.path.join(d, "a.parquet")
    df = pd.DataFrame({"a": np.arange(40, dtype="int64")})
    write(fn, df, has_nulls=False)
    mask = np.zeros(40, bool); mask[30:35] = True
    got = ParquetFile(fn).to_pandas(row_filter=mask).a.tolist()
    if got != list(range(30, 35)):
        bad.append("(a) required column, mask selects rows 30..34 only: got %r" % got)
    fn2 = os.path.join(d, "b.parquet")
    vals = [None if i % 3 == 0 else float(i) for i in range(40)]
    df2 = pd.DataFrame({"a": vals})
    write(fn2, df2, has_nulls=True)
    mask = np.zeros(40, bool); mask[[1, 5, 14, 20, 22, 33]] = True
    got = ParquetFile(fn2).to_pandas(row_filter=mask).a.tolist()
    want = [vals[i] for i in [1, 5, 14, 20, 22, 33]]
    if [None if x != x else x for x in got] != want:
        bad.append("(b) nullable column: want %r got %r" % (want, got))
finally:
    shutil.rmtree(d)
if bad:
    print("FAIL:", *bad, sep="\n  "); sys.exit(1)
print("OK")
