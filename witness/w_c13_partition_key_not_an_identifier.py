"""C13 / C05 (repaired acb607c): a condition on a hive partition column whose name is not an identifier (my-p) was
ignored: the pattern that finds name=value pairs for pruning only knew [a-zA-Z_0-9]+ names."""
import os, sys, tempfile
import numpy as np, pandas as pd, fastparquet

d = tempfile.mkdtemp(); dn = os.path.join(d, 'h')
fastparquet.write(dn, pd.DataFrame({'x': np.arange(6), 'my-p': [1, 1, 2, 2, 3, 3]}), file_scheme='hive', partition_on=['my-p'])
pf = fastparquet.ParquetFile(dn)
bad = []
for rf in (False, True):
    got = pf.to_pandas(filters=[('my-p', '==', 2)], row_filter=rf).x.tolist()
    if got != [2, 3]:
        bad.append("filters=[('my-p','==',2)], row_filter=%s returned x=%r" % (rf, got))
if pf.count(filters=[('my-p', '==', 2)]) != 2:
    bad.append('count() = %d' % pf.count(filters=[('my-p', '==', 2)]))
if bad:
    print('\n'.join(bad)); sys.exit(1)
print('OK')
