"""C15 (repaired fc71362): a v2 data page of a LIST column in which every value is present (num_nulls == 0) was read
without its definition levels, which record assembly needs: UnboundLocalError.  Files built by hand from the
specification (writer of seeded/C15-z1/demo.py); v2 PLAIN pages of repeated columns are known finding K15b."""
import importlib.util, os, sys, tempfile
import fastparquet
here = os.path.dirname(os.path.dirname(os.path.abspath(__file__)))
spec = importlib.util.spec_from_file_location('demo', os.path.join(here, 'seeded', 'C15-z1', 'demo.py'))
m = importlib.util.module_from_spec(spec); spec.loader.exec_module(m)
tmp = tempfile.mkdtemp(); bad = []
for label, rows, kw in (('v2 dictionary, required list of required elements', [[1, 2], [3], [4, 5, 6]], dict(outer_opt=False, elem_opt=False, dict_enc=True, v2=True)),
                        ('v2 dictionary, optional levels but no nulls', [[1, 2], [3], [4, 5, 6]], dict(dict_enc=True, v2=True)),
                        ('v2 dictionary with nulls (control)', [[1, None], None, [4]], dict(dict_enc=True, v2=True)),
                        ('v1 dictionary without nulls (control)', [[1, 2], [3], [4, 5, 6]], dict(dict_enc=True, v2=False))):
    fn = os.path.join(tmp, 'f.parquet')
    m.write_list_file(fn, [rows], **kw)
    try:
        got = m.plainify(fastparquet.ParquetFile(fn).to_pandas()['a'].tolist())
        if got != rows:
            bad.append('%s: read %r' % (label, got))
    except Exception as e:
        bad.append('%s: %s: %s' % (label, type(e).__name__, str(e)[:80]))
if bad:
    print('\n'.join(bad)); sys.exit(1)
print('OK')
