"""C16 / C07 (repaired 4192395): key-value entries removed on a handle, then an append through it: the new row group plus
footer were shorter than the footer they replaced, and the old bytes stayed behind the new footer (file unreadable)."""
import os, sys, tempfile
import numpy as np, pandas as pd, fastparquet
from fastparquet.util import update_custom_metadata

d = tempfile.mkdtemp(); fn = os.path.join(d, 'a.parq')
fastparquet.write(fn, pd.DataFrame({'x': np.arange(3)}), custom_metadata={'big': 'z' * 5000, 'k': 'v'})
pf = fastparquet.ParquetFile(fn)
update_custom_metadata(pf, {'big': None})
pf.write_row_groups(pd.DataFrame({'x': np.arange(2)}))
try:
    p2 = fastparquet.ParquetFile(fn)
    ok = p2.to_pandas().x.tolist() == [0, 1, 2, 0, 1] and p2.key_value_metadata.get('k') == 'v' and 'big' not in p2.key_value_metadata
    with open(fn, 'rb') as f:
        tail = f.read()[-4:]
    if not ok or tail != b'PAR1':
        print('file content / metadata wrong after the append'); sys.exit(1)
except Exception as e:
    print('the file cannot be opened after the append: %s: %s' % (type(e).__name__, e)); sys.exit(1)
print('OK')
