"""Witness F1 (C16): in-place metadata update that shrinks the footer must leave a readable file."""
import os, sys, tempfile
import pandas as pd
import fastparquet
from fastparquet import write, ParquetFile, update_file_custom_metadata
d = tempfile.mkdtemp()
try:
    fn = os.path.join(d, "a.parquet")
    write(fn, pd.DataFrame({"x": [1, 2, 3]}), custom_metadata={"k": "vvvvvvvvvv"})
    update_file_custom_metadata(fn, {"k": "vvvvvvv"})
    pf = ParquetFile(fn)
    assert pf.key_value_metadata["k"] == "vvvvvvv"
    assert pf.to_pandas().x.tolist() == [1, 2, 3]
    print("OK")
finally:
    import shutil; shutil.rmtree(d)
