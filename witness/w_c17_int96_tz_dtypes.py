"""C17: tz-aware datetime column written with times='int96'.

ParquetFile.dtypes (metadata only) reports a naive 'M8[ns]' for the column,
but the frame that to_pandas() then produces holds a tz-aware column
(datetime64[ns, <tz>]).  With times='int64' both agree.
"""
import os
import sys
import tempfile
import warnings

import pandas as pd

warnings.simplefilter("ignore")
from fastparquet import ParquetFile, write


def main():
    d = tempfile.mkdtemp()
    df = pd.DataFrame({
        "t": pd.date_range("2020-01-01", periods=4, freq="h", tz="Europe/Berlin"),
        "x": [1, 2, 3, 4],
    })
    bad = []
    for times in ("int64", "int96"):
        fn = os.path.join(d, "tz_%s.parq" % times)
        write(fn, df, times=times)
        for pandas_nulls in (True, False):
            pf = ParquetFile(fn, pandas_nulls=pandas_nulls)
            reported = pd.api.types.pandas_dtype(pf.dtypes["t"])
            actual = pf.to_pandas()["t"].dtype
            if reported != actual:
                bad.append("times=%s pandas_nulls=%s: dtypes['t']=%r but data dtype is %r"
                           % (times, pandas_nulls, pf.dtypes["t"], actual))
    if bad:
        print("FAIL")
        for b in bad:
            print("  " + b)
        return 1
    print("OK")
    return 0


if __name__ == "__main__":
    sys.exit(main())
