"""C17 (repaired dc2dc86): with pandas_nulls=False (and no pandas metadata) a nullable integer column was reported as
the scalar np.float64(0.0), not as the float64 dtype the read produces."""
import os, sys, tempfile
import numpy as np, pandas as pd, fastparquet

d = tempfile.mkdtemp(); fn = os.path.join(d, 'a.parq')
fastparquet.write(fn, pd.DataFrame({'x': pd.array([1, None], dtype='Int64')}))
pf = fastparquet.ParquetFile(fn, pandas_nulls=False)
pf.fmd.key_value_metadata = []; pf._kvm = None; pf._pdm = None; pf._base_dtype = None     # as for a foreign file
rep = pf._dtypes()['x']
real = pf.to_pandas().x.dtype
if not isinstance(rep, np.dtype) or rep != real:
    print('reported %r, the read gives %r' % (rep, real)); sys.exit(1)
print('OK')
