"""C17 / C07 (repaired cbfc420): after write_row_groups on a handle, that same handle kept the null-aware dtypes and the
category counts it had derived from the old row groups."""
import os, sys, tempfile, warnings
import numpy as np, pandas as pd, fastparquet
warnings.simplefilter('ignore')

d = tempfile.mkdtemp(); bad = []
for scheme in ('simple', 'hive'):
    fn = os.path.join(d, 'a_' + scheme)
    fastparquet.write(fn, pd.DataFrame({'x': np.array([1, 2], dtype='int64'), 'c': pd.Categorical(['a', 'b'])}), file_scheme=scheme)
    pf = fastparquet.ParquetFile(fn)
    pf.write_row_groups(pd.DataFrame({'x': pd.array([3, None], dtype='Int64'), 'c': pd.Categorical(['a', 'b'])}))
    pf.write_row_groups(pd.DataFrame({'x': pd.array([3] * 300, dtype='Int64'), 'c': pd.Categorical(['k%d' % i for i in range(300)])}))
    try:
        same = pf.to_pandas()
        fresh = fastparquet.ParquetFile(fn).to_pandas()
        if len(same) != len(fresh) or str(pf.dtypes['x']) != str(fastparquet.ParquetFile(fn).dtypes['x']):
            bad.append('%s: same handle reads %d rows / dtype %s, a fresh one %d' % (scheme, len(same), pf.dtypes['x'], len(fresh)))
    except Exception as e:
        bad.append('%s: reading through the handle that appended raised %s: %s' % (scheme, type(e).__name__, str(e)[:90]))
if bad:
    print('\n'.join(bad)); sys.exit(1)
print('OK')
