"""Witness F4 (C18): a refused single-file append leaves the file as it was."""
import os, tempfile, shutil
import pandas as pd
from fastparquet import write, ParquetFile
d = tempfile.mkdtemp()
try:
    fn = os.path.join(d, "a.parquet")
    df = pd.DataFrame({"a": [1, 2, 3], "b": ["x", "y", "z"]})
    write(fn, df, has_nulls=False)
    before = open(fn, "rb").read()
    bad = pd.DataFrame({"a": [4, 5, 6], "b": ["x", None, "z"]})
    try:
        write(fn, bad, append=True)
    except Exception as e:
        print("refused:", type(e).__name__)
    else:
        raise SystemExit("append was not refused")
    after = open(fn, "rb").read()
    assert before == after, "file bytes changed by refused append"
    back = ParquetFile(fn).to_pandas()
    assert back.a.tolist() == [1, 2, 3] and back.b.tolist() == ["x", "y", "z"]
    print("OK")
finally:
    shutil.rmtree(d)
