"""C18 (repaired 8769c2d): values of another kind appended to a boolean / datetime column, zone-aware values to a naive
datetime column (and the reverse) were re-interpreted: text and 2 read back as True, 5 as 1970-01-01T00:00:00.000000005,
zone-aware stamps shifted by the offset.  Now refused, the dataset keeps its rows."""
import os, sys, tempfile, warnings
import numpy as np, pandas as pd, fastparquet
warnings.simplefilter('ignore')

d = tempfile.mkdtemp(); bad = []
cases = [('bool <- text', [True, False], ['yes', 'no']), ('bool <- int', [True, False], [2, 0]),
         ('datetime <- int', pd.to_datetime(['2020-01-01', '2020-01-02']), [5, 6]),
         ('naive datetime <- zone-aware', pd.to_datetime(['2020-01-01', '2020-01-02']), pd.to_datetime(['2021-01-01', '2021-01-02']).tz_localize('Asia/Tokyo')),
         ('zone-aware <- naive datetime', pd.to_datetime(['2020-01-01', '2020-01-02']).tz_localize('Asia/Tokyo'), pd.to_datetime(['2021-01-01', '2021-01-02']))]
for scheme in ('simple', 'hive'):
    for i, (label, first, second) in enumerate(cases):
        fn = os.path.join(d, '%s_%d' % (scheme, i))
        fastparquet.write(fn, pd.DataFrame({'c': first}), file_scheme=scheme)
        before = fastparquet.ParquetFile(fn).to_pandas().c.tolist()
        try:
            fastparquet.write(fn, pd.DataFrame({'c': second}), file_scheme=scheme, append=True)
            bad.append('%s, %s: accepted; reads %r' % (scheme, label, fastparquet.ParquetFile(fn).to_pandas().c.tolist()[2:]))
        except ValueError:
            if fastparquet.ParquetFile(fn).to_pandas().c.tolist() != before:
                bad.append('%s, %s: refused, but the dataset changed' % (scheme, label))
if bad:
    print('\n'.join(bad)); sys.exit(1)
print('OK')
