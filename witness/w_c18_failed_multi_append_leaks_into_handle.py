"""C18 (repaired c210e0a): a multi-file append through a handle that fails in a later part left the row groups of the
earlier parts in the handle's metadata; the next successful append through that handle published the refused rows."""
import os, sys, tempfile
import numpy as np, pandas as pd, fastparquet

d = tempfile.mkdtemp(); dn = os.path.join(d, 'h')
fastparquet.write(dn, pd.DataFrame({'x': np.array([1, 2], dtype='int32')}), file_scheme='hive')
pf = fastparquet.ParquetFile(dn)
try:
    pf.write_row_groups(pd.DataFrame({'x': np.array([5, 6, 2 ** 40, 8], dtype='int64')}), row_group_offsets=[0, 2])
    print('the append with an out-of-range value was not refused'); sys.exit(1)
except ValueError:
    pass
pf.write_row_groups(pd.DataFrame({'x': np.array([9], dtype='int64')}))
got = fastparquet.ParquetFile(dn).to_pandas().x.tolist()
if got != [1, 2, 9]:
    print('after a refused and a later accepted append the dataset holds %r, expected [1, 2, 9]' % got); sys.exit(1)
print('OK')
