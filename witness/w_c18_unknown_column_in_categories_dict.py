"""C18 (repaired 6ef154f): an unknown column named in a categories *dict* was not refused (lists were)."""
import os, sys, tempfile
import numpy as np, pandas as pd, fastparquet

d = tempfile.mkdtemp(); fn = os.path.join(d, 'a.parq')
fastparquet.write(fn, pd.DataFrame({'x': np.arange(3), 's': pd.Categorical(list('abc'))}))
pf = fastparquet.ParquetFile(fn)
bad = []
for cats in (['zz'], {'zz': 3}):
    try:
        pf.to_pandas(categories=cats)
        bad.append('categories=%r accepted' % (cats,))
    except (ValueError, TypeError):
        pass
if pf.to_pandas(categories={'s': 4}).s.astype(str).tolist() != list('abc'):
    bad.append('a valid categories dict no longer works')
if bad:
    print('\n'.join(bad)); sys.exit(1)
print('OK')
