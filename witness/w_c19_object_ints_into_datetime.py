"""Appending an object column of plain integers to a datetime column: accepted, the integers stored raw and read back as
timestamps a few microseconds after the epoch (the existing rows intact).  Must be refused (ValueError), the dataset
unchanged.  Exit 1 when the violation shows."""
import os, shutil, sys, tempfile
import pandas as pd
import fastparquet

d = tempfile.mkdtemp()
try:
    fn = os.path.join(d, 'a.parq')
    fastparquet.write(fn, pd.DataFrame({'t': pd.to_datetime(['2020-01-01', '2021-01-01'])}))
    before = open(fn, 'rb').read()
    try:
        fastparquet.write(fn, pd.DataFrame({'t': pd.Series([1, 2], dtype=object)}), append=True)
    except ValueError as e:
        same = open(fn, 'rb').read() == before
        print('refused: %s; file unchanged: %s' % (str(e)[:100], same))
        sys.exit(0 if same else 1)
    out = fastparquet.ParquetFile(fn).to_pandas()
    print('VIOLATION: accepted; rows read back:', out['t'].astype(str).tolist())
    sys.exit(1)
finally:
    shutil.rmtree(d)
