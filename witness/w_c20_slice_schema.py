"""Witness F5 (C20): deriving a sliced handle does not rebuild the parent's schema tree in place."""
import os, tempfile, shutil
import pandas as pd
from fastparquet import write, ParquetFile
d = tempfile.mkdtemp()
try:
    fn = os.path.join(d, "a.parquet")
    write(fn, pd.DataFrame({"a": [1, 2, 3, 4], "b": [1., 2., 3., 4.]}), row_group_offsets=[0, 2])
    pf = ParquetFile(fn)
    root_children = pf.schema.root["children"]
    ids = {k: id(v.contents) for k, v in root_children.items()}
    sub = pf[0]
    # parent's tree object must be the very same object, untouched
    assert pf.schema.root["children"] is root_children, "parent's children dict was replaced"
    assert {k: id(v.contents) for k, v in pf.schema.root["children"].items()} == ids
    # and the child must not share element dicts with the parent
    assert sub.schema.root.contents is not pf.schema.root.contents, "sliced handle shares schema element dicts"
    assert sub.to_pandas().a.tolist() == [1, 2]
    print("OK")
finally:
    shutil.rmtree(d)
