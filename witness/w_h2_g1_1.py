"""Categorical column whose labels are time-zone aware timestamps, and a
MultiIndex with a time-zone aware level (stored the same way): after a
write -> read round trip every instant is moved by the zone's UTC offset."""
import os
import sys
import tempfile
import warnings

import pandas as pd
from fastparquet import write, ParquetFile

warnings.simplefilter("ignore")
bad = False
with tempfile.TemporaryDirectory() as d:
    fn = os.path.join(d, "cat.parq")
    stamps = pd.to_datetime(["2020-01-01 00:00", "2020-01-02 00:00",
                             "2020-01-01 00:00"]).tz_localize("Asia/Tokyo")
    # 1. categorical column with tz-aware labels
    df = pd.DataFrame({"c": pd.Categorical(stamps)})
    write(fn, df)
    out = ParquetFile(fn).to_pandas()
    exp = [t.isoformat() for t in df["c"].astype(object)]
    got = [t.isoformat() for t in out["c"].astype(object)]
    print("categorical column  written :", exp)
    print("categorical column  read    :", got)
    if exp != got:
        bad = True

    # 2. MultiIndex with a tz-aware level
    fn2 = os.path.join(d, "mi.parq")
    idx = pd.MultiIndex.from_arrays([stamps, [3, 2, 1]], names=["when", "k"])
    df2 = pd.DataFrame({"a": [1, 2, 3]}, index=idx)
    write(fn2, df2)
    out2 = ParquetFile(fn2).to_pandas()
    exp2 = [t.isoformat() for t in df2.index.get_level_values("when")]
    got2 = [t.isoformat() for t in out2.index.get_level_values("when")]
    print("MultiIndex level    written :", exp2)
    print("MultiIndex level    read    :", got2)
    if exp2 != got2:
        bad = True

print("VIOLATION: instants shifted by the UTC offset" if bad else "ok")
sys.exit(1 if bad else 0)
