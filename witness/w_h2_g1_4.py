"""object column whose encoding is guessed ('infer', the default) from its
first values as bool: values further down that are not bools are cast with
astype(bool) - 'no' -> True, 'False' -> True, '' -> False, 2 -> True - and the
file silently holds other data.  (Same for a column guessed as int/float: the
text '7' / '2.5' and True are stored as 7 / 2.5 / 1.)"""
import os
import sys
import tempfile
import warnings

import pandas as pd
from fastparquet import write, ParquetFile

warnings.simplefilter("ignore")
bad = False
with tempfile.TemporaryDirectory() as d:
    fn = os.path.join(d, "x.parq")
    tail = ["no", "False", "", 2, 0.0]
    for head, label in (([True, False] * 6, "bool"),
                        ([1] * 12, "int"),
                        ([1.5] * 12, "float")):
        if label == "int":
            tail_ = ["7", True]
        elif label == "float":
            tail_ = ["2.5", True]
        else:
            tail_ = tail
        vals = head + tail_
        df = pd.DataFrame({"x": pd.Series(vals, dtype=object)})
        try:
            write(fn, df)           # has_nulls=True, object_encoding='infer'
        except Exception as e:
            print(label, ": write refused:", repr(e)[:100])
            continue
        out = ParquetFile(fn).to_pandas()
        got = out["x"].tolist()[len(head):]
        print("%-5s column, stray values written: %r" % (label, tail_))
        print("%-5s column, read back           : %r" % (label, got))
        if any(type(a) is not type(b) or a != b for a, b in zip(tail_, got)):
            bad = True

print("VIOLATION: stray values silently replaced" if bad else "ok")
sys.exit(1 if bad else 0)
