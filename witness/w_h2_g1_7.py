"""A frame whose MultiIndex levels have no names (the pandas default for
MultiIndex.from_tuples / from_product / groupby results without names)
cannot be written: TypeError('keywords must be strings') out of
util.reset_row_idx.  A single unnamed index is accepted (it is stored under
the name 'index'), and so is the same MultiIndex once it has names."""
import os
import sys
import tempfile
import warnings

import pandas as pd
from fastparquet import write, ParquetFile

warnings.simplefilter("ignore")
bad = False
with tempfile.TemporaryDirectory() as d:
    fn = os.path.join(d, "x.parq")
    idx = pd.MultiIndex.from_tuples([(1, "a"), (1, "b"), (2, "a")])
    df = pd.DataFrame({"x": [1.0, 2.0, 3.0]}, index=idx)
    for names in ([None, None], ["k", None], ["k", "l"]):
        df.index.names = names
        try:
            write(fn, df)
            out = ParquetFile(fn).to_pandas()
            same = out.index.tolist() == df.index.tolist() \
                and out["x"].tolist() == df["x"].tolist()
            print("level names", names, ": written and read, index equal:", same)
            if not same:
                bad = True
        except Exception as e:
            print("level names", names, ": write raised", repr(e))
            if not isinstance(e, ValueError):
                bad = True       # an incidental TypeError, not a refusal

print("VIOLATION: valid frame (unnamed MultiIndex levels) cannot be written"
      if bad else "ok")
sys.exit(1 if bad else 0)
