import sys, os, tempfile, shutil, warnings
warnings.simplefilter('ignore')
# ---- minimal hand-written Parquet encoder (thrift compact protocol + page encodings), from the
# ---- Parquet specification only; nothing below uses fastparquet to *write* the file.
import io, struct

def uvarint(n):
    out = bytearray()
    while n > 0x7f:
        out.append((n & 0x7f) | 0x80)
        n >>= 7
    out.append(n)
    return bytes(out)

def zz(n):
    return ((n << 1) ^ (n >> 63)) & 0xffffffffffffffff

CT = {'i8': 3, 'i16': 4, 'i32': 5, 'i64': 6, 'bin': 8, 'list': 9, 'struct': 12}
LONGFORM = False  # True: always use the long form of the compact-protocol field header

def tval(typ, v):
    if typ in ('i16', 'i32', 'i64'):
        return uvarint(zz(v))
    if typ == 'i8':
        return bytes([v & 0xff])
    if typ == 'bin':
        v = v.encode() if isinstance(v, str) else v
        return uvarint(len(v)) + v
    if typ == 'struct':
        return tstruct(v)
    if typ == 'list':
        etyp, items = v
        n = len(items)
        head = bytes([(n << 4) | CT[etyp]]) if n < 15 else bytes([0xf0 | CT[etyp]]) + uvarint(n)
        return head + b''.join(tval(etyp, it) for it in items)
    raise ValueError(typ)

def tstruct(fields):
    """fields: list of (field id, type, value); a value of None leaves the field out"""
    out = bytearray()
    last = 0
    for fid, typ, v in fields:
        if v is None:
            continue
        ct = (1 if v else 2) if typ == 'bool' else CT[typ]
        delta = fid - last
        if 0 < delta <= 15 and not LONGFORM:
            out.append((delta << 4) | ct)          # short form: delta in the high nibble
        else:
            out.append(ct)                          # long form: type byte, then zigzag field id
            out += uvarint(zz(fid))
        last = fid
        if typ != 'bool':
            out += tval(typ, v)
    out.append(0)
    return bytes(out)

BOOLEAN, INT32, INT64, INT96, FLOAT, DOUBLE, BYTE_ARRAY, FLBA = range(8)
REQUIRED, OPTIONAL = 0, 1
PLAIN, PLAIN_DICTIONARY, RLE, BIT_PACKED, DELTA_BINARY_PACKED, RLE_DICTIONARY = 0, 2, 3, 4, 5, 8
DATA_PAGE, DICTIONARY_PAGE, DATA_PAGE_V2 = 0, 2, 3
UTF8, DECIMAL, DATE, UINT_32 = 0, 5, 6, 13

def plain(values, typ):
    if typ == BOOLEAN:
        out = bytearray((len(values) + 7) // 8)
        for i, v in enumerate(values):
            if v:
                out[i // 8] |= 1 << (i % 8)
        return bytes(out)
    if typ == INT32:
        return b''.join(struct.pack('<i', v) for v in values)
    if typ == INT64:
        return b''.join(struct.pack('<q', v) for v in values)
    if typ == DOUBLE:
        return b''.join(struct.pack('<d', v) for v in values)
    if typ == BYTE_ARRAY:
        return b''.join(struct.pack('<i', len(v)) + v for v in values)
    return b''.join(values)   # INT96 / FIXED_LEN_BYTE_ARRAY

def width_of(maxval):
    w = 0
    while maxval:
        w += 1
        maxval >>= 1
    return w

def hybrid(values, width):
    """RLE/bit-packed hybrid: one bit-packed run (LSB first, padded to a multiple of 8 values)"""
    vals = list(values)
    if not vals:
        return b''
    if width == 0:
        return uvarint(len(vals) << 1)
    while len(vals) % 8:
        vals.append(0)
    acc = 0
    for i, v in enumerate(vals):
        acc |= v << (i * width)
    return uvarint(((len(vals) // 8) << 1) | 1) + acc.to_bytes(len(vals) * width // 8, 'little')

def delta_binary_packed(values, block_size=128, miniblocks=4, bits=64):
    mask = (1 << bits) - 1
    out = uvarint(block_size) + uvarint(miniblocks) + uvarint(len(values)) + uvarint(zz(values[0]))
    deltas = [b - a for a, b in zip(values[:-1], values[1:])]
    vpm = block_size // miniblocks
    for i in range(0, len(deltas), block_size):
        blk = deltas[i:i + block_size]
        mind = min(blk)
        out += uvarint(zz(mind))
        rel = [(x - mind) & mask for x in blk]
        widths, bodies = [], []
        for m in range(miniblocks):
            mb = rel[m * vpm:(m + 1) * vpm]
            if not mb:
                widths.append(0)
                continue
            w = width_of(max(mb))
            widths.append(w)
            mb = mb + [0] * (vpm - len(mb))
            acc = 0
            for k, v in enumerate(mb):
                acc |= v << (k * w)
            bodies.append(acc.to_bytes(vpm * w // 8, 'little'))
        out += bytes(widths) + b''.join(bodies)
    return out

def page_v1(values_bytes, num_values, encoding, defs=None):
    body = b''
    if defs is not None:                       # optional column: 4-byte length + hybrid levels
        lv = hybrid(defs, 1)
        body += struct.pack('<i', len(lv)) + lv
    body += values_bytes
    dph = [(1, 'i32', num_values), (2, 'i32', encoding), (3, 'i32', RLE), (4, 'i32', RLE)]
    return tstruct([(1, 'i32', DATA_PAGE), (2, 'i32', len(body)), (3, 'i32', len(body)),
                    (5, 'struct', dph)]) + body

def page_v2(values_bytes, num_values, num_nulls, encoding, defs=None):
    dl = hybrid(defs, 1) if defs is not None else b''
    dph = [(1, 'i32', num_values), (2, 'i32', num_nulls), (3, 'i32', num_values), (4, 'i32', encoding),
           (5, 'i32', len(dl)), (6, 'i32', 0)]
    size = len(dl) + len(values_bytes)
    return tstruct([(1, 'i32', DATA_PAGE_V2), (2, 'i32', size), (3, 'i32', size),
                    (8, 'struct', dph)]) + dl + values_bytes

def page_dict(values_bytes, num_values):
    dph = [(1, 'i32', num_values), (2, 'i32', PLAIN_DICTIONARY)]
    return tstruct([(1, 'i32', DICTIONARY_PAGE), (2, 'i32', len(values_bytes)),
                    (3, 'i32', len(values_bytes)), (7, 'struct', dph)]) + values_bytes

def column(name, typ, repetition=REQUIRED, converted=None, type_length=None, scale=None,
           precision=None, logical=None):
    return dict(name=name, typ=typ, se=[(1, 'i32', typ), (2, 'i32', type_length), (3, 'i32', repetition),
                                        (4, 'bin', name), (6, 'i32', converted), (7, 'i32', scale),
                                        (8, 'i32', precision), (10, 'struct', logical)])

def chunk(pages, num_values, has_dict=False, null_count=None):
    return dict(pages=pages, num_values=num_values, has_dict=has_dict, null_count=null_count)

def write_file(path, columns, row_groups, created_by='hand-built spec encoder'):
    """row_groups: list of (num_rows, [chunk per column]); uncompressed"""
    f = io.BytesIO()
    f.write(b'PAR1')
    rgs, total_rows = [], 0
    for num_rows, chunks in row_groups:
        total_rows += num_rows
        ccs, tot = [], 0
        for col, ch in zip(columns, chunks):
            start = f.tell()
            dict_off = data_off = None
            for i, p in enumerate(ch['pages']):
                if i == 0 and ch['has_dict']:
                    dict_off = f.tell()
                elif data_off is None:
                    data_off = f.tell()
                f.write(p)
            if data_off is None:
                data_off = start
            size = f.tell() - start
            tot += size
            st = None if ch['null_count'] is None else [(3, 'i64', ch['null_count'])]
            md = [(1, 'i32', col['typ']), (2, 'list', ('i32', [PLAIN, RLE, RLE_DICTIONARY])),
                  (3, 'list', ('bin', [col['name']])), (4, 'i32', 0), (5, 'i64', ch['num_values']),
                  (6, 'i64', size), (7, 'i64', size), (9, 'i64', data_off), (11, 'i64', dict_off),
                  (12, 'struct', st)]
            ccs.append([(2, 'i64', start), (3, 'struct', md)])
        rgs.append([(1, 'list', ('struct', ccs)), (2, 'i64', tot), (3, 'i64', num_rows)])
    schema = [[(4, 'bin', 'schema'), (5, 'i32', len(columns))]] + [c['se'] for c in columns]
    fmd = tstruct([(1, 'i32', 1), (2, 'list', ('struct', schema)), (3, 'i64', total_rows),
                   (4, 'list', ('struct', rgs)), (6, 'bin', created_by)])
    f.write(fmd)
    f.write(struct.pack('<i', len(fmd)))
    f.write(b'PAR1')
    with open(path, 'wb') as fo:
        fo.write(f.getvalue())
    return path
# ---- end of encoder ----


import fastparquet

tmp = tempfile.mkdtemp()
try:
    bad = False
    def read(col, body, n):
        fn = os.path.join(tmp, 'lt.parquet')
        write_file(fn, [col], [(n, [chunk([page_v1(body, n, PLAIN)], n, null_count=0)])])
        s = fastparquet.ParquetFile(fn).to_pandas()['x']
        return s.dtype, s.tolist()
    # LogicalType union members: 1 STRING, 5 DECIMAL(scale, precision), 6 DATE, 10 INTEGER(bitWidth, isSigned)
    cases = [
        ('INTEGER(32, unsigned) on INT32', column('x', INT32, logical=[(10, 'struct', [(1, 'i8', 32), (2, 'bool', False)])]),
         plain([0, -1, -2**31], INT32), 3, [0, 4294967295, 2147483648]),
        ('DECIMAL(scale=2, precision=9) on INT32', column('x', INT32, logical=[(5, 'struct', [(1, 'i32', 2), (2, 'i32', 9)])]),
         plain([25, 150, -300], INT32), 3, [0.25, 1.5, -3.0]),
        ('STRING on BYTE_ARRAY', column('x', BYTE_ARRAY, logical=[(1, 'struct', [])]),
         plain([b'a', b'bc'], BYTE_ARRAY), 2, ['a', 'bc']),
        ('DATE on INT32', column('x', INT32, logical=[(6, 'struct', [])]),
         plain([0, 19782], INT32), 2, ['1970-01-01', '2024-02-29']),
    ]
    for label, col, body, n, want in cases:
        dt, got = read(col, body, n)
        got_cmp = [str(g)[:10] for g in got] if label.startswith('DATE') else got
        ok = got_cmp == want
        print('%-40s dtype %-8s got %r%s' % (label, dt, got, '' if ok else '   <-- VIOLATION, expected %r' % (want,)))
        bad |= not ok
    # the same columns with the (deprecated) converted_type also set are read correctly:
    dt, got = read(column('x', INT32, converted=UINT_32, logical=[(10, 'struct', [(1, 'i8', 32), (2, 'bool', False)])]),
                   plain([0, -1, -2**31], INT32), 3)
    print('with converted_type=UINT_32 as well     dtype', dt, 'got', got)
    sys.exit(1 if bad else 0)
finally:
    shutil.rmtree(tmp, ignore_errors=True)
