"""C04: the min/max of a text column exposed by ParquetFile.statistics lose
trailing NUL characters (the stored statistics and the data are right)."""
import os, sys, tempfile
import pandas as pd
from fastparquet import write, ParquetFile

d = tempfile.mkdtemp()
fn = os.path.join(d, "a.parq")
df = pd.DataFrame({"s": ["a\x00", "a\x00\x00", "b", "b\x00"]})
write(fn, df, row_group_offsets=[0, 2], stats=True)
pf = ParquetFile(fn)
back = pf.to_pandas()
assert back["s"].tolist() == df["s"].tolist()          # data round-trips
bad = False
for k, (a, b) in enumerate([(0, 2), (2, 4)]):
    part = df["s"].iloc[a:b]
    raw = pf.row_groups[k].columns[0].meta_data.statistics
    print("row group", k, "stored min/max bytes:", raw.min, raw.max)
    got = (pf.statistics["min"]["s"][k], pf.statistics["max"]["s"][k])
    exp = (part.min(), part.max())
    print("   exposed min/max:", repr(got[0]), repr(got[1]), "  actual:", repr(exp[0]), repr(exp[1]))
    if got != exp:
        bad = True
if bad:
    print("VIOLATION: exposed text bounds differ from the smallest/largest stored value (trailing NULs dropped)")
sys.exit(1 if bad else 0)
