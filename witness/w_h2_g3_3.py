"""C13 (and pruning never happens, C05 stays sound): on a drill-style
partitioned dataset (directories hold bare values, columns dir0, dir1, ...) a
filter condition on a partition column is silently ignored, at row-group level
and at row level."""
import os, sys, tempfile
import numpy as np, pandas as pd
from fastparquet import write, ParquetFile

d = tempfile.mkdtemp()
fn = os.path.join(d, "ds")
df = pd.DataFrame({"x": np.arange(12), "p": ["a", "b", "c"] * 4, "q": [1, 2] * 6})
write(fn, df, file_scheme="drill", partition_on=["p", "q"])
pf = ParquetFile(fn)
print("scheme:", pf.file_scheme, "partition columns:", dict(pf.cats))
full = pf.to_pandas()
bad = False
cases = [
    ([("dir0", "==", "a")], full.dir0 == "a"),
    ([("dir1", "==", 1)], full.dir1.astype(int) == 1),
    ([("dir0", "in", ["a"]), ("x", ">", 5)], (full.dir0 == "a") & (full.x > 5)),
]
for flt, truth in cases:
    exp = sorted(full.x[truth.values].tolist())
    got = sorted(ParquetFile(fn).to_pandas(filters=flt, row_filter=True).x.tolist())
    cnt = int(ParquetFile(fn).count(filters=flt, row_filter=True))
    print(flt, "\n   row_filter=True ->", got, " count:", cnt, "\n   expected        ->", exp)
    if got != exp or cnt != len(exp):
        bad = True
if bad:
    print("VIOLATION: conditions on drill partition columns are not applied")
sys.exit(1 if bad else 0)
