"""C04 (reader side): min/max of a FIXED_LEN_BYTE_ARRAY DECIMAL column, as
pyarrow / parquet-mr / Spark write decimals, are exposed wrongly by
ParquetFile.statistics whenever the big-endian unscaled value ends in a 0x00
byte (unscaled value a multiple of 256): 2.56 is shown as 0.01, -2.56 as -0.01.
The data themselves decode correctly. File built by hand."""
import os, sys, tempfile
import struct
# ---- minimal thrift compact protocol encoder ----
def uvarint(n):
    out = bytearray()
    while True:
        b = n & 0x7F; n >>= 7
        if n: out.append(b | 0x80)
        else:
            out.append(b); return bytes(out)
def zz(n): return uvarint((n << 1) ^ (n >> 63))
I32, I64, BIN, LST, STRUCT = 5, 6, 8, 9, 12
def enc_val(t, v):
    if t in (I32, I64): return zz(v)
    if t == BIN: return uvarint(len(v)) + v
    if t == STRUCT: return enc_struct(v)
    if isinstance(t, tuple):  # list of t[1]
        et = t[1]; code = et if not isinstance(et, tuple) else LST
        head = bytes([(len(v) << 4) | code]) if len(v) < 15 else bytes([0xF0 | code]) + uvarint(len(v))
        return head + b''.join(enc_val(et, x) for x in v)
    raise ValueError(t)
def enc_struct(fields):
    """fields: list of (id, type, value) sorted by id; value None = absent"""
    out = bytearray(); last = 0
    for fid, t, v in fields:
        if v is None: continue
        code = LST if isinstance(t, tuple) else t
        d = fid - last
        if 0 < d <= 15: out.append((d << 4) | code)
        else: out.append(code); out += zz(fid)
        out += enc_val(t, v); last = fid
    out.append(0)
    return bytes(out)
def schema_el(name, type=None, rep=None, nchild=None, conv=None, tlen=None, scale=None, prec=None):
    return [(1,I32,type),(2,I32,tlen),(3,I32,rep),(4,BIN,name.encode()),(5,I32,nchild),(6,I32,conv),(7,I32,scale),(8,I32,prec)]
def stats(max=None,min=None,nulls=None,max_value=None,min_value=None):
    return [(1,BIN,max),(2,BIN,min),(3,I64,nulls),(5,BIN,max_value),(6,BIN,min_value)]
def page_v1(nvalues, payload):
    dph = [(1,I32,nvalues),(2,I32,0),(3,I32,3),(4,I32,3)]   # PLAIN, RLE, RLE
    ph = [(1,I32,0),(2,I32,len(payload)),(3,I32,len(payload)),(5,STRUCT,dph)]
    return enc_struct(ph) + payload
def build(schema_cols, rgs, created_by=b'parquet-mr version 1.8.1 (build abc)'):
    """schema_cols: list of schema_el(...) for leaf columns (all REQUIRED flat)
    rgs: list of (nrows, [ (ptype, name, [pages bytes], nvalues, stats) ... ])"""
    body = bytearray(b'PAR1'); rg_structs = []
    for nrows, cols in rgs:
        chunks = []; tot = 0
        for ptype, name, pages, nvalues, st in cols:
            off = len(body); data = b''.join(pages); body += data; tot += len(data)
            cmd = [(1,I32,ptype),(2,(LST,I32),[0,3]),(3,(LST,BIN),[name.encode()]),(4,I32,0),(5,I64,nvalues),
                   (6,I64,len(data)),(7,I64,len(data)),(9,I64,off),(12,STRUCT,st)]
            chunks.append([(2,I64,off),(3,STRUCT,cmd)])
        rg_structs.append([(1,(LST,STRUCT),chunks),(2,I64,tot),(3,I64,nrows)])
    root = schema_el('schema', nchild=len(schema_cols))
    fmd = [(1,I32,1),(2,(LST,STRUCT),[root]+schema_cols),(3,I64,sum(r[0] for r in rgs)),(4,(LST,STRUCT),rg_structs),(6,BIN,created_by)]
    foot = enc_struct(fmd)
    body += foot + struct.pack('<I', len(foot)) + b'PAR1'
    return bytes(body)
def plain_ba(vals): return b''.join(struct.pack('<I',len(v))+v for v in vals)

import numpy as np
from fastparquet import ParquetFile
be = lambda n: n.to_bytes(2, 'big', signed=True)
dv = [be(256), be(-256), be(5)]                      # 2.56, -2.56, 0.05 as DECIMAL(4,2)
f = build([schema_el('d', type=7, rep=0, conv=5, tlen=2, scale=2, prec=4), schema_el('x', type=2, rep=0)],
          [(3, [(7, 'd', [page_v1(3, b''.join(dv))], 3, stats(nulls=0, max_value=dv[0], min_value=dv[1])),
                (2, 'x', [page_v1(3, struct.pack('<3q', 0, 1, 2))], 3, stats(nulls=0))])],
          created_by=b'parquet-cpp-arrow version 14.0.0')
fn = os.path.join(tempfile.mkdtemp(), 'dec.parquet')
open(fn, 'wb').write(f)
pf = ParquetFile(fn)
data = pf.to_pandas()['d']
print("data:", data.tolist())
st = pf.statistics
print("statistics min:", st['min']['d'], " max:", st['max']['d'])
bad = not (np.isclose(st['min']['d'][0], data.min()) and np.isclose(st['max']['d'][0], data.max()))
if bad:
    print("VIOLATION: exposed bounds", st['min']['d'][0], st['max']['d'][0], "but the chunk holds", data.min(), "..", data.max())
sys.exit(1 if bad else 0)
