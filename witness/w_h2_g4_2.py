"""A struct child column takes the pandas-metadata entry of a *top-level* column
that happens to have the same leaf name: converted_types.typemap looks the
metadata up by se.name (leaf name), not by the column's path.

File layout (what pyarrow writes for df = {'s': [{'x': 0.5}, ...], 'x': Int64 with NA}):
    schema { required group s { required double x; }  optional int64 x; }
    pandas metadata: columns s (object), x (numpy_type "Int64")
The file is made by writing the two leaves flat with fastparquet (PLAIN v1 pages,
REQUIRED double needs no levels) and re-writing only the footer.
"""
import json, os, struct, sys, tempfile
import numpy as np, pandas as pd
from fastparquet import ParquetFile, write, parquet_thrift

with tempfile.TemporaryDirectory() as d:
    n = 6
    doubles = np.arange(n) + 0.5
    df = pd.DataFrame({'sx': doubles,
                       'x': pd.array([1, None, 3, 4, None, 6], dtype='Int64')})
    flat = os.path.join(d, 'flat.parq')
    write(flat, df, has_nulls=['x'], row_group_offsets=[0, 3])
    pf = ParquetFile(flat)
    raw = open(flat, 'rb').read()
    body = raw[:len(raw) - 8 - pf._head_size]
    fmd = pf.fmd
    sch = fmd.schema                      # [root, sx (DOUBLE REQUIRED), x (INT64 OPTIONAL)]
    group = parquet_thrift.SchemaElement(name='s', num_children=1, repetition_type=0, i32=1)
    leaf = sch[1]
    leaf.name = 'x'
    fmd.schema = [sch[0], group, leaf, sch[2]]
    for rg in fmd.row_groups:
        rg.columns[0].meta_data[3] = ['s', 'x']          # path_in_schema
    pm = json.loads(pf.key_value_metadata['pandas'])
    for c in pm['columns']:
        if c['name'] == 'sx':
            c.update(name='s', field_name='s', pandas_type='object', numpy_type='object')
    pm['creator'] = {'library': 'pyarrow', 'version': '14.0.0'}
    fmd.key_value_metadata = [parquet_thrift.KeyValue(key=b'pandas', value=json.dumps(pm).encode())]
    fmd.created_by = b'parquet-cpp-arrow version 14.0.0'
    foot = bytes(fmd.to_bytes())
    fn = os.path.join(d, 'struct.parq')
    with open(fn, 'wb') as f:
        f.write(body); f.write(foot); f.write(struct.pack('<I', len(foot))); f.write(b'PAR1')

    pf = ParquetFile(fn)
    print(pf.schema.text)
    print('reported dtypes:', dict(pf.dtypes))
    out = pf.to_pandas()
    print(out)
    got = out['s.x'].tolist()
    print('s.x read    :', got, out['s.x'].dtype)
    print('s.x in file :', doubles.tolist(), 'DOUBLE')
    bad = (str(pf.dtypes['s.x']) != 'float64') or (list(map(float, got)) != doubles.tolist())
    if bad:
        print('VIOLATION: the DOUBLE leaf s.x is reported and read with the dtype of the other column "x"')
        sys.exit(1)
    print('no violation')
    sys.exit(0)
