"""A pyarrow-style file of a frame whose column labels are integers cannot be read.

pyarrow stores the labels as strings ('0', '1') and records their original type in the
pandas metadata: "column_indexes": [{"name": null, "pandas_type": "int64",
"numpy_type": "int64", ...}].  fastparquet passes that numpy_type to
dataframe.empty(columns_dtype=...), which turns the frame's labels - and with them the
keys of the dict of output views - into numpy integers before anything is read.
The file is a fastparquet file whose footer was re-written with that metadata.
"""
import json, os, struct, sys, tempfile, traceback
import numpy as np, pandas as pd
from fastparquet import ParquetFile, write, parquet_thrift

with tempfile.TemporaryDirectory() as d:
    n = 4
    df = pd.DataFrame({'0': np.arange(n), '1': np.arange(n) * 1.5})
    flat = os.path.join(d, 'flat.parq')
    write(flat, df, row_group_offsets=[0, 2])
    pf = ParquetFile(flat)
    raw = open(flat, 'rb').read()
    body = raw[:len(raw) - 8 - pf._head_size]
    fmd = pf.fmd
    pm = json.loads(pf.key_value_metadata['pandas'])
    pm['column_indexes'] = [{"name": None, "field_name": None, "pandas_type": "int64",
                             "numpy_type": "int64", "metadata": None}]
    pm['creator'] = {'library': 'pyarrow', 'version': '14.0.0'}
    fmd.key_value_metadata = [parquet_thrift.KeyValue(key=b'pandas', value=json.dumps(pm).encode())]
    fmd.created_by = b'parquet-cpp-arrow version 14.0.0'
    foot = bytes(fmd.to_bytes())
    fn = os.path.join(d, 'intlabels.parq')
    with open(fn, 'wb') as f:
        f.write(body); f.write(foot); f.write(struct.pack('<I', len(foot))); f.write(b'PAR1')

    pf = ParquetFile(fn)
    print('columns:', pf.columns, 'dtypes:', dict(pf.dtypes), 'rows:', pf.count())
    failures = 0
    for title, f in [('to_pandas()', lambda: pf.to_pandas()),
                     ('pf[0].to_pandas()', lambda: pf[0].to_pandas()),
                     ("to_pandas(columns=['1'])", lambda: pf.to_pandas(columns=['1'])),
                     ('to_pandas(index=False)', lambda: pf.to_pandas(index=False)),
                     ('head(1)', lambda: pf.head(1))]:
        try:
            out = f()
            print(title, '->', out.shape, list(out.columns))
        except Exception as e:
            failures += 1
            print(title, '-> raised', repr(e))
    if failures:
        print('VIOLATION: the handle lists columns, dtypes and row counts but no read succeeds')
        sys.exit(1)
    print('no violation')
    sys.exit(0)
