"""schema.schema_to_text(root, indent=[]) keeps its indentation stack in a mutable
default argument shared by every call in the process.  Rendering the schema of
handles (str(pf.schema), e.g. of handles derived with pf[i]) from several threads
interleaves pushes and pops on that one list: the text comes out with wrong
indentation / tree markers, or the call dies with IndexError, and on a shared
handle the garbled text is cached in SchemaHelper._text for good.
"""
import os, sys, tempfile, threading
import numpy as np, pandas as pd
from fastparquet import ParquetFile, write

sys.setswitchinterval(1e-6)
with tempfile.TemporaryDirectory() as d:
    df = pd.DataFrame({f'c{i}': np.arange(4) for i in range(60)})
    fn = os.path.join(d, 'a.parq')
    write(fn, df, row_group_offsets=[0, 2])
    want = str(ParquetFile(fn).schema)            # rendered alone
    pf = ParquetFile(fn)                          # the shared handle
    bad, errors = [], []
    N = 8
    barrier = threading.Barrier(N)

    def work(tid):
        barrier.wait()
        for k in range(25):
            try:
                s = str(pf[k % 2].schema)         # derived handle: own SchemaHelper, text not cached yet
                if s != want:
                    bad.append(s)
            except Exception as e:
                errors.append(repr(e))
    ts = [threading.Thread(target=work, args=(i,)) for i in range(N)]
    [t.start() for t in ts]; [t.join() for t in ts]

    # the same on ONE handle: whichever thread finishes last caches its text
    shared_bad = 0
    for trial in range(20):
        h = ParquetFile(fn)
        barrier2 = threading.Barrier(4)
        def w2():
            barrier2.wait(); str(h.schema)
        ts = [threading.Thread(target=w2) for _ in range(4)]
        [t.start() for t in ts]; [t.join() for t in ts]
        if str(h.schema) != want:
            shared_bad += 1

    print('renderings from threads: %d of %d differ from the sequential text, %d raised' % (len(bad), N * 25, len(errors)))
    if bad:
        lines_w, lines_b = want.split('\n'), bad[0].split('\n')
        for a, b in zip(lines_w, lines_b):
            if a != b:
                print('  sequential: %r\n  threaded  : %r' % (a, b)); break
    if errors:
        print('  first error:', errors[0])
    print('shared handle: cached text wrong afterwards in %d of 20 trials' % shared_bad)
    import fastparquet.schema as S
    print('the shared default list object:', S.schema_to_text.__defaults__)
    if bad or errors or shared_bad:
        print('VIOLATION: concurrent read-only rendering of the schema gives a different result than alone')
        sys.exit(1)
    print('no violation')
    sys.exit(0)
