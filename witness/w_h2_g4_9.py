"""A single-file dataset whose file name ends in '_metadata' (e.g. 'run_metadata',
no extension) is parsed as a footer-only file when opened by path: _parse_header takes
everything between the magic bytes - data pages included - for the thrift footer.
The very same bytes read through an open file object are fine.
"""
import os, sys, tempfile
import numpy as np, pandas as pd
from fastparquet import ParquetFile, write

with tempfile.TemporaryDirectory() as d:
    df = pd.DataFrame({'a': np.arange(5), 'b': np.arange(5) * 0.5})
    fn = os.path.join(d, 'run_metadata')
    write(fn, df, row_group_offsets=[0, 3])
    with open(fn, 'rb') as f:
        via_file = ParquetFile(f).to_pandas()
        print('through an open file object:', via_file.shape, via_file['a'].tolist())
    try:
        pf = ParquetFile(fn)
        via_path = pf.to_pandas()
        print('through the path           :', via_path.shape, via_path['a'].tolist())
        ok = via_path.equals(via_file)
    except Exception as e:
        print('through the path           : raised', repr(e)[:200])
        ok = False
    if not ok:
        print('VIOLATION: path and file object disagree on the same file')
        sys.exit(1)
    print('no violation')
    sys.exit(0)
