"""append='overwrite' / writer.overwrite on a drill dataset: documented to
raise ValueError unless the dataset is hive, it is accepted and replaces
nothing - the partition named in the new data is now there twice."""
import sys, tempfile

import pandas as pd
from fastparquet import write, ParquetFile

d = tempfile.mkdtemp()
df = pd.DataFrame({"x": [1, 2, 3, 4], "dir0": ["a", "a", "b", "b"]})
write(d, df, file_scheme="drill", partition_on=["dir0"])
print("before:", ParquetFile(d).file_scheme,
      sorted(zip(ParquetFile(d).to_pandas().dir0.astype(str),
                 ParquetFile(d).to_pandas().x)))
new = pd.DataFrame({"x": [9], "dir0": ["a"]})
bad = False
try:
    write(d, new, file_scheme="drill", partition_on=["dir0"], append="overwrite")
    out = ParquetFile(d).to_pandas()
    got = sorted(zip(out.dir0.astype(str), out.x))
    print("overwrite accepted; after:", got)
    # model: partition 'a' replaced by the new rows, 'b' untouched
    bad = got != [("a", 9), ("b", 3), ("b", 4)]
except ValueError as e:
    print("overwrite refused:", e)
print("VIOLATION" if bad else "ok")
sys.exit(1 if bad else 0)
