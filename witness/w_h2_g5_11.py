"""write() documents 'filename: str or pathlib.Path'.  With a Path the initial
hive write works, but the append (and any ParquetFile(Path(dir))) fails with
TypeError: argument of type 'PosixPath' is not iterable."""
import pathlib, sys, tempfile

import pandas as pd
from fastparquet import write, ParquetFile

d = pathlib.Path(tempfile.mkdtemp()) / "ds"
df = pd.DataFrame({"x": [1, 2, 3]})
write(d, df, file_scheme="hive")
print("initial write to a pathlib.Path directory: ok")
bad = False
try:
    write(d, df, file_scheme="hive", append=True)
    print("append ok:", ParquetFile(str(d)).to_pandas().x.tolist())
except Exception as e:
    print("append failed:", type(e).__name__, e)
    bad = True
print("rows on disk:", ParquetFile(str(d)).to_pandas().x.tolist())
print("VIOLATION" if bad else "ok")
sys.exit(1 if bad else 0)
