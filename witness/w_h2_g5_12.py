"""Whole-number floats appended to an integer column are checked against the
32/64-bit storage type only, not against the column's own (narrower or
unsigned) type: 300.0 into an int8 column reads back as 44, -1.0 into uint8
as 255.  The same values as integers are refused."""
import os, sys, tempfile

import numpy as np
import pandas as pd
from fastparquet import write, ParquetFile

bad = False
for base, new in [("int8", [300.0, 1.0]), ("int16", [40000.0]),
                  ("uint8", [-1.0, 2.0]), ("uint16", [70000.0]),
                  ("uint32", [-5.0]), ("uint64", [-1.0])]:
    d = tempfile.mkdtemp()
    fn = os.path.join(d, "f.parq")
    write(fn, pd.DataFrame({"c": np.array([1, 2], dtype=base)}))
    try:
        write(fn, pd.DataFrame({"c": np.array(new, dtype="float64")}), append=True)
    except ValueError as e:
        print("%-6s <- float64 %-14r refused: %s" % (base, new, str(e)[:60]))
        continue
    got = ParquetFile(fn).to_pandas().c.tolist()[2:]
    same = [float(g) for g in got] == new
    print("%-6s <- float64 %-14r accepted, reads back %r%s"
          % (base, new, got, "" if same else "   <-- wrong"))
    bad |= not same
    # the same numbers as int64 are refused (the check exists for integers)
    try:
        write(fn, pd.DataFrame({"c": np.array(new, dtype="int64")}), append=True)
        print("        (as int64: accepted)")
    except ValueError as e:
        print("        (as int64: refused - %s)" % str(e)[:60])
print("VIOLATION" if bad else "ok")
sys.exit(1 if bad else 0)
