"""write(..., append=True) can never append to a drill dataset: it is refused
both with file_scheme='drill' and 'hive', although ParquetFile.write_row_groups
does the very same append correctly."""
import sys, tempfile

import pandas as pd
from fastparquet import write, ParquetFile

df = pd.DataFrame({"x": [1, 2, 3, 4], "dir0": ["a", "a", "b", "b"]})
more = pd.DataFrame({"x": [5, 6], "dir0": ["a", "c"]})

d = tempfile.mkdtemp()
write(d, df, file_scheme="drill", partition_on=["dir0"])
pf = ParquetFile(d)
print("scheme on disk:", pf.file_scheme, dict(pf.cats))

bad = False
for scheme in ["drill", "hive"]:
    try:
        write(d, more, file_scheme=scheme, partition_on=["dir0"], append=True)
        print("append with file_scheme=%r: accepted" % scheme)
    except Exception as e:
        print("append with file_scheme=%r refused: %r" % (scheme, e))
        if scheme == "drill":
            bad = True
out = ParquetFile(d).to_pandas()
print("rows now:", len(out))

# the lower-level call shows the append itself is supported
d2 = tempfile.mkdtemp()
write(d2, df, file_scheme="drill", partition_on=["dir0"])
ParquetFile(d2).write_row_groups(more)
out2 = ParquetFile(d2).to_pandas()
print("via ParquetFile.write_row_groups:", sorted(zip(out2.x.tolist(),
                                                     out2.dir0.astype(str))))
print("VIOLATION" if bad else "ok")
sys.exit(1 if bad else 0)
