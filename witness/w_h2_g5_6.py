"""Appending to a multi-file dataset whose data files are not called
part.<n>.parquet (a merged set of files, output of other tools) crashes in
part_ids with TypeError instead of appending."""
import os, sys, tempfile

import pandas as pd
from fastparquet import write, ParquetFile
from fastparquet.writer import merge

d = tempfile.mkdtemp()
df = pd.DataFrame({"x": [1, 2, 3, 4]})
files = [os.path.join(d, "a.parquet"), os.path.join(d, "b.parquet")]
for f in files:
    write(f, df)
merge(files)                       # writes d/_metadata
pf = ParquetFile(d)
print("dataset:", pf.file_scheme, len(pf.row_groups), "row groups,",
      pf.count(), "rows")

bad = False
try:
    write(d, df, file_scheme="hive", append=True)
    out = ParquetFile(d).to_pandas()
    print("append ok:", out.x.tolist())
    bad = out.x.tolist() != [1, 2, 3, 4] * 3
except Exception as e:
    print("append failed:", type(e).__name__, e)
    bad = True
try:
    ParquetFile(d).write_row_groups(df)
except Exception as e:
    print("ParquetFile.write_row_groups failed too:", type(e).__name__, e)
print("VIOLATION" if bad else "ok")
sys.exit(1 if bad else 0)
