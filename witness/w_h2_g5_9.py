"""remove_row_groups on a dataset whose (fastparquet-made) files hold several
row groups deletes the whole file although other row groups of it are kept in
_metadata: the dataset becomes unreadable.  The protective check is skipped
whenever created_by says fastparquet and the layout is hive."""
import os, sys, tempfile

import pandas as pd
from fastparquet import write, ParquetFile
from fastparquet.writer import merge

d = tempfile.mkdtemp()
df = pd.DataFrame({"x": [1, 2, 3, 4]})
files = []
for a in (1, 2):
    os.makedirs(os.path.join(d, "a=%d" % a))
    fn = os.path.join(d, "a=%d" % a, "part.0.parquet")
    write(fn, df, row_group_offsets=2)          # two row groups per file
    files.append(fn)
merge(files)
pf = ParquetFile(d)
print("dataset:", pf.file_scheme, len(pf.row_groups), "row groups;",
      pf.to_pandas().values.tolist())

bad = False
try:
    pf.remove_row_groups(pf.row_groups[0])      # first half of a=1/part.0.parquet
    print("removal of one row group accepted")
except ValueError as e:
    print("removal refused:", str(e)[:100])
pf2 = ParquetFile(d)
print("row groups listed now:", len(pf2.row_groups),
      "| a=1/part.0.parquet exists:",
      os.path.exists(os.path.join(d, "a=1", "part.0.parquet")))
try:
    out = pf2.to_pandas()
    print("reads back:", out.values.tolist())
    if len(pf2.row_groups) == 3:
        bad = out.x.tolist() != [3, 4, 1, 2, 3, 4]
    else:
        bad = len(out) != 8
except Exception as e:
    print("dataset unreadable:", type(e).__name__, str(e)[:120])
    bad = True
print("VIOLATION" if bad else "ok")
sys.exit(1 if bad else 0)
