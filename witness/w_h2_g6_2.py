"""C14: a list of relative paths together with root= (the documented way of
naming the top of a hive tree) is refused; the same call with absolute paths
works."""
import os, sys, tempfile
import pandas as pd
from fastparquet import write, ParquetFile
from fastparquet.writer import merge

d = tempfile.mkdtemp()
os.chdir(d)
for k in (1, 2):
    os.makedirs('ds/a=7/b=%d' % k)
    write('ds/a=7/b=%d/x.parquet' % k, pd.DataFrame({'v': [k, k + 10]}))
files = ['ds/a=7/b=%d/x.parquet' % k for k in (1, 2)]

pf = ParquetFile([os.path.abspath(f) for f in files], root=os.path.abspath('ds'))
print('absolute paths + absolute root:', dict(pf.cats), pf.to_pandas().to_dict('list'))
pf = ParquetFile([os.path.abspath(f) for f in files], root='ds')
print('absolute paths + relative root:', dict(pf.cats))

bad = False
for how, call in [('ParquetFile(relative paths, root="ds")', lambda: ParquetFile(files, root='ds')),
                  ('merge(relative paths, root="ds")', lambda: merge(files, root='ds'))]:
    try:
        pf = call()
        out = pf.to_pandas()
        print(how, '->', dict(pf.cats), out.to_dict('list'))
        if sorted(pf.cats) != ['a', 'b'] or len(out) != 4:
            bad = True
    except Exception as e:
        print(how, '-> raised %s: %s' % (type(e).__name__, e))
        bad = True
if bad:
    print('VIOLATION: valid relative paths under the given root are refused')
    sys.exit(1)
sys.exit(0)
