"""Witness (C07/C01, known finding K01b): appending datetime64[ns] rows to a dataset whose column is stored in
microseconds (TIMESTAMP_MICROS).  writer.convert multiplies the ns counts by time_factors[(TIMESTAMP_MICROS, 'ns')] =
1000 instead of dividing: the appended instants are off by a factor of a million."""
import os, shutil, sys, tempfile, warnings
import numpy as np, pandas as pd, fastparquet
warnings.simplefilter('ignore')
d = tempfile.mkdtemp(); fn = os.path.join(d, 'a.parq'); out = []
try:
    a = pd.DataFrame({'t': pd.to_datetime(['2020-01-01 00:00:01', '2020-01-01 00:00:02']).astype('M8[us]')})
    b = pd.DataFrame({'t': pd.to_datetime(['2020-01-01 00:00:03']).astype('M8[ns]')})
    fastparquet.write(fn, a)
    fastparquet.write(fn, b, append=True)
    got = fastparquet.ParquetFile(fn).to_pandas().t
    want = ['2020-01-01 00:00:01', '2020-01-01 00:00:02', '2020-01-01 00:00:03']
    try:
        g = [str(x)[:19] for x in got]
    except Exception as e:
        g = [repr(e)]
    if g != want:
        out.append('appended 2020-01-01 00:00:03 (ns) to a us column, read back %s' % g)
except Exception as e:
    out.append('raised %r' % e)
finally:
    shutil.rmtree(d)
if out:
    print('DEFECT-REPRODUCED:', *out, sep='\n  '); sys.exit(1)
print('OK')
