"""K01c: a data column whose name ends in `-catdef` shares the name space of the internal label entries: it is not
sliced per row group, later row groups overwrite the first rows.  Exits 1 while the finding stands."""
import os, sys, tempfile
import pandas as pd, fastparquet

d = tempfile.mkdtemp(); fn = os.path.join(d, 'a.parq')
df = pd.DataFrame({'y': [10, 20, 30], 'x-catdef': [1, 2, 3]})
fastparquet.write(fn, df, row_group_offsets=[0, 2])
got = fastparquet.ParquetFile(fn).to_pandas()['x-catdef'].tolist()
if got != [1, 2, 3]:
    print("column 'x-catdef' written as [1, 2, 3] over two row groups, read back as %r" % got); sys.exit(1)
print('OK')
