"""Witness (C03/C01/C11, known finding K03): cencoding.NumpyIO.read(0) returns *all remaining bytes* (the test for
the read-everything default is `x < 1`).  A page whose payload is legitimately empty - the dictionary page of a
categorical column with no categories, or a v2 data page whose values are all null - makes the page reader
swallow the rest of the column chunk and then parse garbage as the next page header."""
import os, shutil, sys, tempfile, warnings
import pandas as pd, fastparquet
from fastparquet.cencoding import NumpyIO
import numpy as np
warnings.simplefilter('ignore')
bad = []
io = NumpyIO(np.arange(10, dtype='uint8'))
if len(io.read(0)) != 0:
    bad.append('NumpyIO.read(0) returned %d bytes and moved the position to %d' % (10, io.tell()))
d = tempfile.mkdtemp()
try:
    fn = os.path.join(d, 'a.parq')
    df = pd.DataFrame({'c': pd.Categorical([None, None, None])})
    fastparquet.write(fn, df)
    try:
        out = fastparquet.ParquetFile(fn).to_pandas()
        if not out.c.isna().all() or len(out) != 3:
            bad.append('all-null categorical without categories read back as %r' % out.c.tolist())
    except Exception as e:
        bad.append('all-null categorical without categories (empty dictionary page): read raised %r' % e)
finally:
    shutil.rmtree(d)
if bad:
    print('FAIL:', *bad, sep='\n  '); sys.exit(1)
print('OK')
