import os, sys, tempfile, shutil, struct, subprocess, json, math
import numpy as np
import pandas as pd


# physical types
BOOLEAN, INT32, INT64, INT96, FLOAT, DOUBLE, BYTE_ARRAY, FLBA = range(8)
# encodings
PLAIN, PLAIN_DICTIONARY, RLE, BIT_PACKED, DELTA_BINARY_PACKED = 0, 2, 3, 4, 5
RLE_DICTIONARY = 8
# page types
DATA_PAGE, INDEX_PAGE, DICTIONARY_PAGE, DATA_PAGE_V2 = 0, 1, 2, 3
REQUIRED, OPTIONAL = 0, 1


def varint(n):
    out = bytearray()
    while n > 127:
        out.append((n & 0x7f) | 0x80)
        n >>= 7
    out.append(n)
    return bytes(out)


def zz(n):
    return (n << 1) ^ (n >> 63) if n >= 0 else ((-n) << 1) - 1


TYPES = {'bool': 1, 'i8': 3, 'i16': 4, 'i32': 5, 'i64': 6, 'double': 7,
         'bin': 8, 'list': 9, 'struct': 12}


def tstruct(fields):
    """fields: list of (id, kind, value); value None -> skipped.
    list value: (elemkind, [items]); struct value: list of fields"""
    out = bytearray()
    prev = 0
    for fid, kind, val in sorted([f for f in fields if f[2] is not None], key=lambda f: f[0]):
        delta = fid - prev
        if kind == 'bool':
            t = 1 if val else 2
        else:
            t = TYPES[kind]
        if 0 < delta <= 15:
            out.append((delta << 4) | t)
        else:
            out.append(t)
            out += varint(zz(fid))
        prev = fid
        out += tval(kind, val, infield=True)
    out.append(0)
    return bytes(out)


def tval(kind, val, infield=False):
    if kind == 'bool':
        return b'' if infield else (b'\x01' if val else b'\x02')
    if kind in ('i16', 'i32', 'i64'):
        return varint(zz(val))
    if kind == 'i8':
        return struct.pack('b', val)
    if kind == 'double':
        return struct.pack('<d', val)
    if kind == 'bin':
        if isinstance(val, str):
            val = val.encode()
        return varint(len(val)) + val
    if kind == 'struct':
        return tstruct(val)
    if kind == 'list':
        ek, items = val
        t = TYPES[ek]
        out = bytearray()
        if len(items) < 15:
            out.append((len(items) << 4) | t)
        else:
            out.append(0xf0 | t)
            out += varint(len(items))
        for it in items:
            out += tval(ek, it)
        return bytes(out)
    raise ValueError(kind)


# ---------- primitive encoders ----------

def bitpack(values, width):
    """LSB-first bit packing; len(values) should be multiple of 8 for runs"""
    acc = 0
    nbits = 0
    for v in values:
        acc |= (v & ((1 << width) - 1)) << nbits
        nbits += width
    nbytes = (nbits + 7) // 8
    return acc.to_bytes(nbytes, 'little') if nbytes else b''


def hybrid(runs, width):
    """runs: list of ('rle', value, count) or ('bp', [values]) (padded to mult of 8)"""
    out = bytearray()
    for r in runs:
        if r[0] == 'rle':
            out += varint(r[2] << 1)
            out += int(r[1]).to_bytes((width + 7) // 8, 'little')
        else:
            vals = list(r[1])
            while len(vals) % 8:
                vals.append(0)
            out += varint((len(vals) // 8) << 1 | 1)
            out += bitpack(vals, width)
    return bytes(out)


def auto_runs(values, mode='mixed', minrle=8):
    """simple run splitter: rle for runs >= minrle (at 8-aligned starts), else bp groups"""
    values = list(values)
    if mode == 'rle':
        runs = []
        i = 0
        while i < len(values):
            j = i
            while j < len(values) and values[j] == values[i]:
                j += 1
            runs.append(('rle', values[i], j - i))
            i = j
        return runs
    if mode == 'bp':
        return [('bp', values)] if values else []
    runs = []
    i = 0
    n = len(values)
    buf = []
    while i < n:
        j = i
        while j < n and values[j] == values[i]:
            j += 1
        if j - i >= minrle and len(buf) % 8 == 0:
            if buf:
                runs.append(('bp', buf))
                buf = []
            runs.append(('rle', values[i], j - i))
            i = j
        else:
            buf.append(values[i])
            i += 1
    if buf:
        runs.append(('bp', buf))
    return runs


def delta_encode(values, block_size=128, nmini=4, bits=64, pad_widths=0):
    """DELTA_BINARY_PACKED per the spec."""
    mask = (1 << bits) - 1

    def wrap(x):
        x &= mask
        return x - (1 << bits) if x >> (bits - 1) else x
    out = bytearray()
    out += varint(block_size) + varint(nmini) + varint(len(values))
    first = values[0] if values else 0
    out += varint(zz(first))
    vpm = block_size // nmini
    deltas = [wrap(values[i + 1] - values[i]) for i in range(len(values) - 1)]
    for b in range(0, len(deltas), block_size):
        blk = deltas[b:b + block_size]
        mind = min(blk)
        out += varint(zz(mind))
        rel = [(d - mind) & mask for d in blk]
        widths = []
        bodies = []
        for m in range(nmini):
            mb = rel[m * vpm:(m + 1) * vpm]
            if not mb:
                widths.append(pad_widths)
                continue
            w = max(mb).bit_length()
            mb = mb + [0] * (vpm - len(mb))
            widths.append(w)
            bodies.append(bitpack(mb, w))
        out += bytes(widths)
        for bd in bodies:
            out += bd
    return bytes(out)


def plain(values, ptype, type_length=None):
    if ptype == BOOLEAN:
        return bitpack([1 if v else 0 for v in values], 1)
    if ptype == INT32:
        return b''.join(struct.pack('<i', v) for v in values)
    if ptype == INT64:
        return b''.join(struct.pack('<q', v) for v in values)
    if ptype == FLOAT:
        return b''.join(struct.pack('<f', v) for v in values)
    if ptype == DOUBLE:
        return b''.join(struct.pack('<d', v) for v in values)
    if ptype == BYTE_ARRAY:
        return b''.join(struct.pack('<i', len(v)) + v for v in values)
    if ptype in (FLBA, INT96):
        return b''.join(values)
    raise ValueError


# ---------- pages ----------

def stats_struct(null_count=None, min_value=None, max_value=None, mn=None, mx=None):
    return [(1, 'bin', mx), (2, 'bin', mn), (3, 'i64', null_count),
            (5, 'bin', max_value), (6, 'bin', min_value)]


def compress(data, codec):
    if codec == 0:
        return data
    import cramjam
    if codec == 1:
        return bytes(cramjam.snappy.compress_raw(data))
    if codec == 2:
        return bytes(cramjam.gzip.compress(data))
    if codec == 6:
        return bytes(cramjam.zstd.compress(data))
    if codec == 4:
        return bytes(cramjam.brotli.compress(data))
    if codec in (5, 7):
        return bytes(cramjam.lz4.compress_block(data, store_size=False))
    raise ValueError


def dict_page(values_bytes, num_values, codec=0, encoding=PLAIN_DICTIONARY):
    comp = compress(values_bytes, codec)
    hdr = tstruct([(1, 'i32', DICTIONARY_PAGE), (2, 'i32', len(values_bytes)),
                   (3, 'i32', len(comp)),
                   (7, 'struct', [(1, 'i32', num_values), (2, 'i32', encoding)])])
    return hdr + comp


def levels_v1(levels, width, runs=None):
    body = hybrid(runs if runs is not None else auto_runs(levels), width)
    return struct.pack('<i', len(body)) + body


def data_page_v1(num_values, encoding, values_bytes, def_bytes=b'', codec=0,
                 stats=None, def_enc=RLE):
    raw = def_bytes + values_bytes
    comp = compress(raw, codec)
    hdr = tstruct([(1, 'i32', DATA_PAGE), (2, 'i32', len(raw)), (3, 'i32', len(comp)),
                   (5, 'struct', [(1, 'i32', num_values), (2, 'i32', encoding),
                                  (3, 'i32', def_enc), (4, 'i32', RLE),
                                  (5, 'struct', stats)])])
    return hdr + comp


def data_page_v2(num_values, num_nulls, num_rows, encoding, values_bytes,
                 def_bytes=b'', codec=0, is_compressed=None, stats=None):
    """def_bytes: hybrid without length prefix"""
    docomp = codec != 0 and is_compressed is not False
    comp = compress(values_bytes, codec) if docomp else values_bytes
    hdr = tstruct([(1, 'i32', DATA_PAGE_V2),
                   (2, 'i32', len(def_bytes) + len(values_bytes)),
                   (3, 'i32', len(def_bytes) + len(comp)),
                   (8, 'struct', [(1, 'i32', num_values), (2, 'i32', num_nulls),
                                  (3, 'i32', num_rows), (4, 'i32', encoding),
                                  (5, 'i32', len(def_bytes)), (6, 'i32', 0),
                                  (7, 'bool', is_compressed),
                                  (8, 'struct', stats)])])
    return hdr + def_bytes + comp


# ---------- file ----------

class Col:
    def __init__(self, name, ptype, repetition=REQUIRED, converted=None, type_length=None,
                 scale=None, precision=None, logical=None):
        self.name, self.ptype, self.repetition = name, ptype, repetition
        self.converted, self.type_length = converted, type_length
        self.scale, self.precision, self.logical = scale, precision, logical

    def schema(self):
        return [(1, 'i32', self.ptype), (2, 'i32', self.type_length),
                (3, 'i32', self.repetition), (4, 'bin', self.name),
                (6, 'i32', self.converted), (7, 'i32', self.scale),
                (8, 'i32', self.precision), (10, 'struct', self.logical)]


def write_file(path, cols, row_groups, created_by="hand-made spec encoder", kv=None):
    """row_groups: list of dict(num_rows=..., chunks=[dict(pages=[bytes...], has_dict=bool,
    num_values=int, codec=int, encodings=[...], stats=fields or None)])"""
    buf = bytearray(b'PAR1')
    rgs = []
    for rg in row_groups:
        chunks = []
        total = 0
        for col, ch in zip(cols, rg['chunks']):
            start = len(buf)
            dict_off = None
            data_off = None
            for i, pg in enumerate(ch['pages']):
                if i == 0 and ch.get('has_dict'):
                    dict_off = len(buf)
                elif data_off is None:
                    data_off = len(buf)
                buf += pg
            size = len(buf) - start
            if data_off is None:
                data_off = start
            total += size
            md = [(1, 'i32', col.ptype),
                  (2, 'list', ('i32', ch.get('encodings', [PLAIN, RLE]))),
                  (3, 'list', ('bin', [col.name])),
                  (4, 'i32', ch.get('codec', 0)),
                  (5, 'i64', ch['num_values']),
                  (6, 'i64', ch.get('uncompressed', size)),
                  (7, 'i64', size),
                  (9, 'i64', data_off),
                  (11, 'i64', dict_off),
                  (12, 'struct', ch.get('stats'))]
            chunks.append([(2, 'i64', start), (3, 'struct', md)])
        rgs.append([(1, 'list', ('struct', chunks)), (2, 'i64', total),
                    (3, 'i64', rg['num_rows'])])
    root = [(4, 'bin', 'schema'), (5, 'i32', len(cols))]
    fmd = [(1, 'i32', 1),
           (2, 'list', ('struct', [root] + [c.schema() for c in cols])),
           (3, 'i64', sum(rg['num_rows'] for rg in row_groups)),
           (4, 'list', ('struct', rgs)),
           (5, 'list', ('struct', [[(1, 'bin', k), (2, 'bin', v)] for k, v in kv.items()])) if kv else (5, 'list', None),
           (6, 'bin', created_by)]
    foot = tstruct(fmd)
    buf += foot + struct.pack('<I', len(foot)) + b'PAR1'
    with open(path, 'wb') as f:
        f.write(bytes(buf))

# ---------------------------------------------------------------------------
# Witness: FIXED_LEN_BYTE_ARRAY(4) without annotation whose values end in 0x00 bytes
# (plain page, dictionary page, v1 and v2).
import fastparquet

def main():
    d = tempfile.mkdtemp()
    try:
        vals = [b'\x01\x02\x03\x00', b'abcd', b'\x00\x00\x00\x00', b'ab\x00\x00', b'\x00\x01\x00\x02']
        n = len(vals)
        idx = list(range(n))
        body = bytes([3]) + hybrid([('bp', idx)], 3)
        variants = {
            'v1 PLAIN': dict(pages=[data_page_v1(n, PLAIN, plain(vals, FLBA))], num_values=n),
            'v2 PLAIN': dict(pages=[data_page_v2(n, 0, n, PLAIN, plain(vals, FLBA))], num_values=n),
            'v1 dictionary': dict(pages=[dict_page(plain(vals, FLBA), n),
                                         data_page_v1(n, RLE_DICTIONARY, body)],
                                  has_dict=True, num_values=n, encodings=[RLE_DICTIONARY, PLAIN]),
        }
        bad = []
        for name, chunk in variants.items():
            fn = os.path.join(d, name.replace(' ', '_') + '.parquet')
            write_file(fn, [Col('x', FLBA, REQUIRED, type_length=4)], [dict(num_rows=n, chunks=[chunk])])
            got = fastparquet.ParquetFile(fn).to_pandas()['x'].tolist()
            if got != vals:
                bad.append((name, got))
        if bad:
            print("FAIL: FIXED_LEN_BYTE_ARRAY(4) values lose their trailing zero bytes")
            print("  expected      %s" % vals)
            for name, got in bad:
                print("  %-13s %s" % (name, got))
            return 1
        print("OK")
        return 0
    finally:
        shutil.rmtree(d, ignore_errors=True)

sys.exit(main())
