"""C04: min/max written for a JSON-encoded column are not the extremes under the column's
Parquet ordering (JSON = unsigned byte-wise comparison of the stored bytes).

write_column() takes data0.max()/data0.min() of the *Python objects* (list comparison:
[2] < [3] < [10]) and then JSON-encodes those two objects.  The stored byte strings are
b'[2]', b'[10]', b'[3]'; byte-wise the smallest is b'[10]' and the largest b'[3]', but the
chunk's statistics say min=b'[2]', max=b'[10]' - i.e. min > max byte-wise and the stored
value b'[3]' lies outside [min, max].
"""
import os
import sys
import tempfile

import pandas as pd

from fastparquet import ParquetFile, write

problems = []
with tempfile.TemporaryDirectory() as d:
    values = [[2], [10], [3]]
    df = pd.DataFrame({"j": pd.Series(values, dtype=object)})
    fn = os.path.join(d, "j.parq")
    for stats in (True, ["j"]):
        write(fn, df, object_encoding={"j": "json"}, stats=stats)
        pf = ParquetFile(fn)
        se = pf.schema.schema_element(["j"])
        assert se.converted_type == 19 and se.type == 6, "expected BYTE_ARRAY/JSON"
        assert pf.to_pandas().j.tolist() == values

        st = pf.row_groups[0].columns[0].meta_data.statistics
        smin, smax = st.min, st.max
        if smin is None and smax is None:
            continue                      # no min/max at all is acceptable
        smin = smin.encode() if isinstance(smin, str) else bytes(smin)
        smax = smax.encode() if isinstance(smax, str) else bytes(smax)
        # what is really stored, in the column's ordering (unsigned bytes)
        from fastparquet.json import json_encoder
        enc = json_encoder()
        stored = [bytes(enc(v)) for v in values]      # exactly what convert() writes
        assert stored == [b"[2]", b"[10]", b"[3]"]
        true_min, true_max = min(stored), max(stored)
        if (smin, smax) != (true_min, true_max):
            problems.append(
                "stats=%r: chunk statistics min=%r max=%r, but the stored values %r have byte-wise "
                "min=%r max=%r (min>max: %s; stored %r outside [min,max]: %s)"
                % (stats, smin, smax, stored, true_min, true_max, smin > smax,
                   b"[3]", not (smin <= b"[3]" <= smax)))

if problems:
    print("FAIL")
    for p in problems:
        print("  -", p)
    sys.exit(1)
print("OK")
