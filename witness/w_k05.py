"""Witness K05: 'not in' prunes a row group on a single bound."""
import os, tempfile, shutil
import pandas as pd
from fastparquet import write, ParquetFile
d = tempfile.mkdtemp()
try:
    fn = os.path.join(d, "a.parquet")
    write(fn, pd.DataFrame({"x": list(range(1, 10))}))
    out = ParquetFile(fn).to_pandas(filters=[("x", "not in", [9])])
    print("rows returned:", len(out), "(8 rows satisfy the condition)")
    print("DEFECT-REPRODUCED" if len(out) == 0 else "not reproduced")
finally:
    shutil.rmtree(d)
