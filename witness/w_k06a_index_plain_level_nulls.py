"""C06: explicitly chosen index of two columns, one of which is an ordinary
(PLAIN-encoded, non-categorical) column containing nulls.  Single row group.

to_pandas(index=['a','b']) returns a MultiIndex whose level for 'a' is the
placeholder [None] and whose codes are the raw column VALUES (1, 0, 3, 7, ...):
a corrupt index (IndexError / interpreter crash when used), whereas
index=False, index='a' (known int64 quirk aside) and the plain read return
the right values.
"""
import os
import sys
import tempfile
import warnings

import numpy as np
import pandas as pd

warnings.simplefilter("ignore")
from fastparquet import ParquetFile, write


def main():
    d = tempfile.mkdtemp()
    problems = []
    cases = {
        "Int64": pd.array([1, None, 3, 7, 5, 2], dtype="Int64"),
        "float-optional": np.array([1.0, np.nan, 3.0, 7.0, 5.0, 2.0]),
    }
    for label, a in cases.items():
        fn = os.path.join(d, "nulls_%s.parq" % label)
        df = pd.DataFrame({"a": a, "b": list("xyzuvw"), "c": np.arange(6) * 1.5})
        write(fn, df, has_nulls=True)
        pf = ParquetFile(fn)
        plain = pf.to_pandas()
        want_a = [None if pd.isna(x) else float(x) for x in plain["a"]]
        try:
            out = pf.to_pandas(index=["a", "b"])
        except Exception as e:  # noqa
            problems.append("%s: to_pandas(index=['a','b']) raises %s: %s"
                            % (label, type(e).__name__, str(e)[:80]))
            continue
        lv, cd = out.index.levels[0], np.asarray(out.index.codes[0])
        if len(cd) and (cd.max() >= len(lv) or cd.min() < -1):
            problems.append(
                "%s: index level 'a' has levels %r but codes %r (the raw column "
                "values were stored as codes)" % (label, list(lv), cd.tolist()))
            continue
        got_a = [None if c < 0 or pd.isna(lv[c]) else float(lv[c]) for c in cd]
        if got_a != want_a:
            problems.append("%s: index level 'a' reads %r, column reads %r"
                            % (label, got_a, want_a))
    if problems:
        print("FAIL")
        for p in problems:
            print("  " + p)
        return 1
    print("OK")
    return 0


if __name__ == "__main__":
    sys.exit(main())
