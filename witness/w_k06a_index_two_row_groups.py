"""C06: explicitly chosen index of two ordinary columns, dataset with >1 row group.

pf[i].to_pandas(index=['a','b']) works for every single row group, but the
full read pf.to_pandas(index=['a','b']) (and any slice spanning two row groups,
and head(n) reaching into the second one) raises
RuntimeError('Different dictionaries encountered while building categorical').
"""
import os
import sys
import tempfile
import warnings

import numpy as np
import pandas as pd

warnings.simplefilter("ignore")
from fastparquet import ParquetFile, write


def main():
    d = tempfile.mkdtemp()
    fn = os.path.join(d, "plain.parq")
    df = pd.DataFrame({"a": [1, 2, 3, 4, 5, 6],
                       "b": list("xyzuvw"),
                       "c": np.arange(6) * 1.5})
    write(fn, df, row_group_offsets=[0, 3])
    pf = ParquetFile(fn)
    expected = df.set_index(["a", "b"])

    def check(name, prog, rows):
        try:
            out = prog()
        except Exception as e:  # noqa
            return "%s raises %s: %s" % (name, type(e).__name__, e)
        exp = expected.iloc[rows]
        lv_ok = all(len(cd) == 0 or cd.max() < len(lv)
                    for lv, cd in zip(out.index.levels, out.index.codes))
        if not lv_ok:
            return "%s: corrupt MultiIndex" % name
        if list(out.index) != list(exp.index) or out["c"].tolist() != exp["c"].tolist():
            return "%s: %r != %r" % (name, list(out.index), list(exp.index))
        return None

    problems = []
    for name, prog, rows in [
            ("pf[0].to_pandas(index=['a','b'])", lambda: pf[0].to_pandas(index=["a", "b"]), slice(0, 3)),
            ("pf[1].to_pandas(index=['a','b'])", lambda: pf[1].to_pandas(index=["a", "b"]), slice(3, 6)),
            ("pf.to_pandas(index=['a','b'])", lambda: pf.to_pandas(index=["a", "b"]), slice(0, 6)),
            ("pf[0:2].to_pandas(index=['a','b'])", lambda: pf[0:2].to_pandas(index=["a", "b"]), slice(0, 6)),
            ("pf.head(4, index=['a','b'])", lambda: pf.head(4, index=["a", "b"]), slice(0, 4)),
    ]:
        p = check(name, prog, rows)
        if p:
            problems.append(p)
    if problems:
        print("FAIL")
        for p in problems:
            print("  " + p)
        return 1
    print("OK")
    return 0


if __name__ == "__main__":
    sys.exit(main())
