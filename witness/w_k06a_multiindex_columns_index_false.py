"""C06: frame with MultiIndex *columns* and a named row index; suppress the index
(index=False) or choose another column as index.

The full read works, but to_pandas(index=False) / index=<other column> raise
ValueError('malformed node or string') instead of returning the same data with
the stored index column as an ordinary column.
"""
import os
import sys
import tempfile
import warnings

import numpy as np
import pandas as pd

warnings.simplefilter("ignore")
from fastparquet import ParquetFile, write


def main():
    d = tempfile.mkdtemp()
    fn = os.path.join(d, "colmi.parq")
    cols = pd.MultiIndex.from_tuples([("a", "x"), ("a", "y"), ("b", "x")],
                                     names=["L0", "L1"])
    df = pd.DataFrame(np.arange(18.0).reshape(6, 3), columns=cols,
                      index=pd.Index(list("pqrstu"), name="I"))
    write(fn, df, row_group_offsets=[0, 2, 4])
    pf = ParquetFile(fn)
    full = pf.to_pandas()
    if full.shape != (6, 3) or list(full.index) != list("pqrstu"):
        print("FAIL\n  full read wrong: %r" % (full,))
        return 1

    problems = []
    progs = [
        ("to_pandas(index=False)", lambda: pf.to_pandas(index=False), 6),
        ("pf[1].to_pandas(index=False)", lambda: pf[1].to_pandas(index=False), 2),
        ("head(3, index=False)", lambda: pf.head(3, index=False), 3),
        ("iter_row_groups(index=False)",
         lambda: pd.concat(list(pf.iter_row_groups(index=False))), 6),
        ("to_pandas(index=\"('a', 'x')\")", lambda: pf.to_pandas(index="('a', 'x')"), 6),
    ]
    for name, prog, nrows in progs:
        try:
            out = prog()
        except Exception as e:  # noqa
            problems.append("%s raises %s: %s" % (name, type(e).__name__, str(e).split(" on line")[0]))
            continue
        if len(out) != nrows:
            problems.append("%s: %d rows, expected %d" % (name, len(out), nrows))
            continue
        # every stored value must be there, whatever the column labels look like
        flat = sorted(float(x) for x in out.select_dtypes("number").to_numpy().ravel())
        exp_rows = {6: range(6), 2: range(2, 4), 3: range(3)}[nrows]
        exp = sorted(float(x) for r in exp_rows for x in df.to_numpy()[r])
        if "index=\"(" in name:
            exp = sorted(set(exp) - set(df.to_numpy()[:, 0]))
        if flat != exp:
            problems.append("%s: values %r != %r" % (name, flat, exp))
    if problems:
        print("FAIL")
        for p in problems:
            print("  " + p)
        return 1
    print("OK")
    return 0


if __name__ == "__main__":
    sys.exit(main())
