"""C06: a frame with a row MultiIndex and a categorical data column.

The full read returns a MultiIndex whose public ``levels`` are the placeholder
``[None]`` (codes point past it), while a partial read that leaves the
categorical column out returns the right index.  Partial and full read disagree;
using the full read's index (repr, get_level_values, reset_index) raises
IndexError or crashes the interpreter.
"""
import os
import sys
import tempfile
import warnings

import numpy as np
import pandas as pd

warnings.simplefilter("ignore")
from fastparquet import ParquetFile, write


def main():
    d = tempfile.mkdtemp()
    fn = os.path.join(d, "mi_cat.parq")
    idx = pd.MultiIndex.from_arrays(
        [["a", "b", "a", "c"], ["x", "y", "y", "x"]], names=["l0", "l1"])
    df = pd.DataFrame(
        {"v": np.arange(4.0), "c": pd.Categorical(["p", "q", "p", "q"])},
        index=idx)
    write(fn, df)
    pf = ParquetFile(fn)

    full = pf.to_pandas()                      # index=None -> ['l0', 'l1']
    part = pf.to_pandas(columns=["v"])         # same rows, categorical left out

    want = [list(lv) for lv in idx.levels]     # [['a','b','c'], ['x','y']]
    got_full = [list(lv) for lv in full.index.levels]
    got_part = [list(lv) for lv in part.index.levels]
    codes_ok = all(
        len(cd) == 0 or cd.max() < len(lv)
        for lv, cd in zip(full.index.levels, full.index.codes))

    problems = []
    if got_part != want:
        problems.append("partial read levels %r != %r" % (got_part, want))
    if got_full != want:
        problems.append("full read levels %r != %r (partial read gives %r)"
                        % (got_full, want, got_part))
    if not codes_ok:
        problems.append("full read index codes %r point outside its levels %r"
                        % ([c.tolist() for c in full.index.codes], got_full))
    if problems:
        print("FAIL")
        for p in problems:
            print("  " + p)
        return 1
    # only safe to touch the index values once the structure is sound
    if list(full.index) != list(idx) or list(part.index) != list(idx):
        print("FAIL\n  index values differ")
        return 1
    print("OK")
    return 0


if __name__ == "__main__":
    sys.exit(main())
