"""K06b: (a) a hive partition column chosen as index: one label for every row, and the column stays as well;
(b) an empty selection of a hive dataset has no partition columns.  Exits 1 while the finding stands."""
import os, sys, tempfile
import numpy as np, pandas as pd, fastparquet

d = tempfile.mkdtemp()
df = pd.DataFrame({'x': np.arange(6), 'y': list('aabbcc'), 'z': np.arange(6) * 1.5})
hd = os.path.join(d, 'h')
fastparquet.write(hd, df, file_scheme='hive', partition_on=['y'], row_group_offsets=[0, 2, 4])
pf = fastparquet.ParquetFile(hd)
bad = []
try:
    out = pf.to_pandas(index='y')
    if list(out.index.astype(str)) != list(df.y) or 'y' in out.columns:
        bad.append('index="y": index reads %r, columns %r' % (list(out.index.astype(str)), list(out.columns)))
except Exception as e:
    bad.append('index="y" raised %s' % e)
if list(pf[0:0].to_pandas().columns) != list(pf.to_pandas().columns):
    bad.append('pf[0:0] has columns %r, the full read %r' % (list(pf[0:0].to_pandas().columns), list(pf.to_pandas().columns)))
if bad:
    print('\n'.join(bad)); sys.exit(1)
print('OK')
