"""Witness (C07/C06/C01, known finding K07): row groups of one categorical column may carry different dictionaries
(appended batches with other category sets, or simply a frame written in several row groups after
remove_unused_categories).  core.read_col installs each row group's dictionary as *the* categories of the shared
output column, so codes written for earlier row groups are reinterpreted under the last dictionary: the full read
silently returns wrong labels, while reading row group by row group returns the right ones."""
import os, shutil, sys, tempfile, warnings
import pandas as pd, fastparquet
warnings.simplefilter('ignore')
bad = []
for scheme in ('simple', 'hive'):
    d = tempfile.mkdtemp()
    try:
        fn = os.path.join(d, 'a.parq') if scheme == 'simple' else d
        frames = [pd.DataFrame({'c': pd.Categorical(['x', 'y', 'x']), 'v': [1, 2, 3]}),
                  pd.DataFrame({'c': pd.Categorical(['z', 'y', 'z']), 'v': [4, 5, 6]}),
                  pd.DataFrame({'c': pd.Categorical(['q', 'x', 'z', 'w']), 'v': [7, 8, 9, 10]})]
        fastparquet.write(fn, frames[0], file_scheme=scheme)
        for f in frames[1:]:
            fastparquet.write(fn, f, file_scheme=scheme, append=True)
        want = [x for f in frames for x in f.c.astype(str)]
        pf = fastparquet.ParquetFile(fn)
        got = pf.to_pandas().c.astype(str).tolist()
        parts = [x for df in pf.iter_row_groups() for x in df.c.astype(str)]
        if got != want:
            bad.append('%s: full read gives %s, appended %s (row group by row group: %s)' % (scheme, got, want, parts))
    finally:
        shutil.rmtree(d)
if bad:
    print('FAIL:', *bad, sep='\n  '); sys.exit(1)
print('OK')
