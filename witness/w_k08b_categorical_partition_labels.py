"""C08: partitioning (hive) on a categorical column whose categories are not text
(integers, floats, booleans, timestamps) loses the value kind: the partition
column comes back with *string* labels ('1', '2.5', 'True', '2020-01-01T00:00:00').
The same values in a plain int/float/bool/datetime column come back correctly."""
import shutil, sys, tempfile
import numpy as np
import pandas as pd
from fastparquet import write, ParquetFile

cases = {
    'int categories': [1, 2, 1, 2],
    'float categories': [1.5, 2.5, 1.5, 2.5],
    'bool categories': [True, False, True, False],
    'timestamp categories': list(pd.to_datetime(['2020-01-01', '2020-01-02', '2020-01-01', '2020-01-02'])),
}
problems = []
for name, vals in cases.items():
    for as_cat in [False, True]:
        tmp = tempfile.mkdtemp()
        try:
            k = pd.Categorical(vals) if as_cat else pd.Series(vals)
            df = pd.DataFrame({'v': np.arange(4), 'k': k})
            write(tmp, df, file_scheme='hive', partition_on=['k'])
            out = ParquetFile(tmp).to_pandas().sort_values('v')
            got = out.k.astype(object).tolist()
            ok = all((not isinstance(g, str)) and g == w for g, w in zip(got, vals))
            if not as_cat:
                assert ok, (name, got)      # control: plain column round-trips
            elif not ok:
                problems.append('%s: wrote %r, read %r' % (name, vals if 'time' not in name else [str(x) for x in vals], got))
        finally:
            shutil.rmtree(tmp, ignore_errors=True)

if problems:
    print('FAIL: categorical partition values come back as text')
    for p in problems:
        print('  ' + p)
    sys.exit(1)
print('OK')
