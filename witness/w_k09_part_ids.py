"""Witness K09 (C09): write a hive dataset partitioned on p in three row-group chunks, then remove
one row group with part-file renumbering.  part_ids() keys the rename plan by the bare part number,
so files with the same number in different partition directories collapse into one plan entry;
_sort_part_names then renames a file onto a live file / stores the new path on the wrong row group."""
import os, tempfile, shutil
import pandas as pd
from fastparquet import write, ParquetFile
rows = [['b', 1], ['b', 2], ['c', 3], ['c', 4], ['c', 5], ['b', 6], ['a', 7], ['b', 8], ['a', 9]]
d = tempfile.mkdtemp()
try:
    df = pd.DataFrame(rows, columns=['p', 'x'])
    write(d, df, file_scheme='hive', partition_on=['p'], row_group_offsets=[0, 3, 6])
    pf = ParquetFile(d)
    print("before:", [rg.columns[0].file_path for rg in pf.row_groups])
    victim = [rg for rg in pf.row_groups if rg.columns[0].file_path == 'p=c/part.1.parquet'][0]
    pf.remove_row_groups([victim], sort_pnames=True)
    pf2 = ParquetFile(d)
    paths = [rg.columns[0].file_path for rg in pf2.row_groups]
    print("after: ", paths)
    on_disk = sorted(os.path.relpath(os.path.join(dp, f), d) for dp, dn, fn in os.walk(d) for f in fn if f.endswith('.parquet'))
    print("on disk:", on_disk)
    want = sorted(x for p, x in rows if x not in (4, 5))
    try:
        got = sorted(pf2.to_pandas().x.tolist())
    except Exception as e:
        got = repr(e)
    print("rows expected", want, "\nrows read    ", got)
    bad = len(set(paths)) != len(paths) or got != want or any(not os.path.exists(os.path.join(d, p)) for p in paths) \
        or sorted(paths) != on_disk
    print("DEFECT-REPRODUCED" if bad else "not reproduced")
finally:
    shutil.rmtree(d)
