"""C09: a partitioned hive dataset that (temporarily) holds no row group forgets
its partitioning; append and overwrite are then refused although the model says
'append adds rows'.  Reached either by removing every row group or by an initial
write of a zero-row frame."""
import os, sys, tempfile
import numpy as np, pandas as pd
from fastparquet import write, ParquetFile

df = pd.DataFrame({"id": [0, 1, 2], "p": [1, 1, 2], "x": [.1, .2, .3]})
problems = []

def try_append(fn, label):
    try:
        write(fn, df, file_scheme="hive", partition_on=["p"], append=True)
    except Exception as e:
        problems.append("%s: append raised %s: %s" % (label, type(e).__name__, str(e)[:90]))
        return
    out = ParquetFile(fn).to_pandas().sort_values("id")
    if out["id"].tolist() != [0, 1, 2] or [int(v) for v in out["p"]] != [1, 1, 2]:
        problems.append("%s: wrong content after append %s" % (label, out.to_dict("list")))

# history 1: write, remove all row groups, append
d = tempfile.mkdtemp(); fn = os.path.join(d, "ds")
write(fn, df, file_scheme="hive", partition_on=["p"])
pf = ParquetFile(fn)
pf.remove_row_groups(pf.row_groups)
pf = ParquetFile(fn)
if list(pf.cats) != ["p"]:
    problems.append("after removing all row groups: partition columns %s, expected ['p'] "
                    "(pandas metadata still lists %s)" % (list(pf.cats),
                    [c["name"] for c in pf.pandas_metadata["partition_columns"]]))
try_append(fn, "after remove-all")

# history 2: initial zero-row write, append
d = tempfile.mkdtemp(); fn = os.path.join(d, "ds")
write(fn, df.iloc[:0], file_scheme="hive", partition_on=["p"])
try_append(fn, "after zero-row write")

# history 3: remove all, then append='overwrite'
d = tempfile.mkdtemp(); fn = os.path.join(d, "ds")
write(fn, df, file_scheme="hive", partition_on=["p"])
pf = ParquetFile(fn); pf.remove_row_groups(pf.row_groups)
try:
    write(fn, df, file_scheme="hive", partition_on=["p"], append="overwrite")
    if sorted(ParquetFile(fn).to_pandas()["id"].tolist()) != [0, 1, 2]:
        problems.append("overwrite after remove-all: wrong content")
except Exception as e:
    problems.append("overwrite after remove-all raised %s: %s" % (type(e).__name__, str(e)[:90]))

if problems:
    print("FAIL")
    for p in problems:
        print("  -", p)
    sys.exit(1)
print("OK")
