"""Witness K10a: field id 14 is never serialised."""
from fastparquet.cencoding import ThriftObject, from_buffer
o = ThriftObject.from_fields("ColumnMetaData", num_values=3, bloom_filter_offset=77)
back = from_buffer(bytes(o.to_bytes()), "ColumnMetaData")
print("bloom_filter_offset after round trip:", back.bloom_filter_offset)
l = ThriftObject.from_fields("LogicalType", UUID={})
print("LogicalType.UUID after round trip:", from_buffer(bytes(l.to_bytes()), "LogicalType").UUID)
assert back.bloom_filter_offset is None  # the defect
print("DEFECT-REPRODUCED")
