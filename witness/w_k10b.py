"""Witness K10b: an i8 field parsed from foreign bytes is re-emitted as i64."""
from fastparquet.cencoding import from_buffer
raw = bytes([0x13, 0x08, 0x11, 0x00])   # IntType{1: i8 8, 2: true}
o = from_buffer(raw, "IntType")
out = bytes(o.to_bytes())
print(raw.hex(), "->", out.hex())
assert out != raw and out[0] & 0x0f == 6
print("DEFECT-REPRODUCED")
