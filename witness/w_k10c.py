"""Witness K10c: serialisation buffer overflow.  Run in a subprocess: it may crash."""
import subprocess, sys
code = r'''
from fastparquet.cencoding import ThriftObject, from_buffer
kv=[ThriftObject.from_fields("KeyValue", key=b"k%05d"%i, value=b"") for i in range(80000)]
f=ThriftObject.from_fields("FileMetaData", version=1, schema=[], num_rows=0, row_groups=[], key_value_metadata=kv[:1], i32list=[1])
f.key_value_metadata = kv   # set after sizing input is fixed? no: sizing uses len(str(self[5]))
s=ThriftObject.from_fields("Statistics", max=b"x"*600000)
b=bytes(s.to_bytes())
print("len", len(b))
'''
r = subprocess.run([sys.executable, "-c", code], capture_output=True, text=True)
print("returncode", r.returncode, r.stdout[-200:], r.stderr[-300:])
print("DEFECT-REPRODUCED" if r.returncode != 0 or "len 6" in r.stdout else "not reproduced")
