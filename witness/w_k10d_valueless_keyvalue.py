"""Witness (C10, known finding K10d): KeyValue.value is optional in the IDL.  A footer that carries a key without a
value reads fine, but cannot be written again: writer.write_thrift rejects value None."""
import os, shutil, struct, sys, tempfile, warnings
import pandas as pd
from fastparquet import ParquetFile, write, parquet_thrift
from fastparquet.writer import update_file_custom_metadata
warnings.simplefilter('ignore')
d = tempfile.mkdtemp(); out = []
try:
    fn = os.path.join(d, 'a.parquet')
    write(fn, pd.DataFrame({'x': [1, 2, 3]}))
    pf = ParquetFile(fn)
    raw = open(fn, 'rb').read()
    flen = struct.unpack('<I', raw[-8:-4])[0]
    fmd = pf.fmd
    fmd.key_value_metadata = list(fmd.key_value_metadata or []) + [parquet_thrift.KeyValue(key=b'flag')]   # no value
    foot = bytes(fmd.to_bytes())                      # the serialiser itself skips absent fields
    open(fn, 'wb').write(raw[:-8 - flen] + foot + struct.pack('<I', len(foot)) + b'PAR1')
    pf = ParquetFile(fn)
    assert pf.to_pandas().x.tolist() == [1, 2, 3]
    assert any(kv.key in (b'flag', 'flag') and kv.value is None for kv in pf.fmd.key_value_metadata)
    try:
        update_file_custom_metadata(fn, {'x': 'y'})
    except TypeError as e:
        out.append('metadata update on a footer with a value-less key: %r' % e)
finally:
    shutil.rmtree(d)
if out:
    print('DEFECT-REPRODUCED:', *out, sep='\n  '); sys.exit(1)
print('OK')
