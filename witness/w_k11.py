"""Witnesses K11a/K11c (in process) and K11b (width 29 in process; width >= 57 may crash: subprocess)."""
import subprocess, sys
import numpy as np
from fastparquet.cencoding import NumpyIO, read_bitpacked, encode_bitpacked
def ref_pack(vals, width):
    acc = nb = 0; out = bytearray()
    for v in vals:
        acc |= int(v) << nb; nb += width
        while nb >= 8:
            out.append(acc & 0xFF); acc >>= 8; nb -= 8
    if nb: out.append(acc & 0xFF)
    return bytes(out)
def ref_unpack(buf, width, n):
    acc = bits = 0; out = []; it = iter(buf)
    for _ in range(n):
        while bits < width:
            acc |= next(it) << bits; bits += 8
        out.append(acc & ((1 << width) - 1)); acc >>= width; bits -= width
    return out
for w in (24, 25):
    vals = [((1 << w) - 1 - 12345 * i) & ((1 << w) - 1) for i in range(64)]
    raw = np.frombuffer(ref_pack(vals, w) + b"\0" * 8, dtype="uint8")
    out = np.zeros(64, dtype="int32")
    read_bitpacked(NumpyIO(raw), (8 << 1) | 1, w, NumpyIO(out.view("uint8")), 4)
    print("K11a read_bitpacked width", w, "ok" if (out.astype("int64") & ((1 << w) - 1)).tolist() == vals else "WRONG at index %d" % [i for i, (a, b) in enumerate(zip((out.astype("int64") & ((1 << w) - 1)).tolist(), vals)) if a != b][0])
for w in (24, 25):
    vals = np.array([(1 << w) - 1 - i for i in range(16)], dtype="int32")
    buf = np.zeros(200, dtype="uint8"); o = NumpyIO(buf); encode_bitpacked(vals, w, o)
    raw = bytes(buf[:o.tell()]); p = 0
    while raw[p] & 0x80: p += 1
    got = ref_unpack(raw[p + 1:], w, 16)
    print("K11c encode_bitpacked width", w, "ok" if got == vals.tolist() else "WRONG")
code = r'''
import numpy as np, sys
from fastparquet.cencoding import NumpyIO, delta_binary_unpack
def uv(x):
    o=bytearray()
    while x>127: o.append((x&0x7f)|0x80); x>>=7
    o.append(x); return bytes(o)
def pack(vals,w):
    acc=nb=0; out=bytearray()
    for v in vals:
        acc|=int(v)<<nb; nb+=w
        while nb>=8: out.append(acc&0xff); acc>>=8; nb-=8
    if nb: out.append(acc&0xff)
    return bytes(out)
w=int(sys.argv[1]); n=33
deltas=[((1<<w)-1-i) for i in range(32)]
buf=uv(32)+uv(1)+uv(n)+uv(0)+uv(0)+bytes([w])+pack(deltas,w)+b"\0"*16
out=np.zeros(n,dtype="int64")
delta_binary_unpack(NumpyIO(np.frombuffer(buf,dtype="uint8")),NumpyIO(out.view("uint8")),1)
want=[0]; 
for d in deltas: want.append((want[-1]+d) & ((1<<64)-1))
want=[x-(1<<64) if x>=(1<<63) else x for x in want]
print("ok" if out.tolist()==want else "WRONG")
'''
for w in (28, 29, 57):
    r = subprocess.run([sys.executable, "-c", code, str(w)], capture_output=True, text=True)
    print("K11b delta width", w, (r.stdout.strip() or "") + (" returncode %d" % r.returncode if r.returncode else ""))
