"""Witnesses K12b (write_bitpacked1 writes past the buffer it was handed - shown through a view,
no crash needed) and K12c (NumpyIO.write uses a byte *value* as destination address - subprocess)."""
import subprocess, sys
import numpy as np
from fastparquet.cencoding import NumpyIO, write_bitpacked1
big = np.zeros(16, dtype="uint8")
inp = np.ones(64 * 8, dtype="uint8")          # 64 'int8 per 8 bytes' inputs, all non-zero low bytes
write_bitpacked1(NumpyIO(inp), 64, NumpyIO(big[:1]))   # output buffer of ONE byte
print("K12b bytes written outside the 1-byte output:", big[1:9].tolist())
print("K12b DEFECT-REPRODUCED" if big[1:9].any() else "K12b not reproduced")
r = subprocess.run([sys.executable, "-c",
                    "import numpy as np; from fastparquet.cencoding import NumpyIO; NumpyIO(np.zeros(64,dtype='uint8')).write(np.frombuffer(b'abcdefgh',dtype='int8')); print('survived')"],
                   capture_output=True, text=True)
print("K12c NumpyIO.write returncode", r.returncode, r.stdout.strip())
print("K12c DEFECT-REPRODUCED" if r.returncode != 0 else "K12c not reproduced")
