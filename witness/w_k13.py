"""Witness K13: OR groups that mention a partition column."""
import os, tempfile, shutil
import pandas as pd
from fastparquet import write, ParquetFile
d = tempfile.mkdtemp()
try:
    df = pd.DataFrame({"p": [1] * 10 + [2] * 10, "x": list(range(10)) * 2})
    write(d, df, file_scheme="hive", partition_on=["p"])
    pf = ParquetFile(d)
    flt = [[("p", "==", 1), ("x", ">", 5)], [("p", "==", 2), ("x", "<", 2)]]
    out = pf.to_pandas(filters=flt, row_filter=True)
    want = df[((df.p == 1) & (df.x > 5)) | ((df.p == 2) & (df.x < 2))]
    print("rows returned", len(out), "rows satisfying the predicate", len(want))
    print("DEFECT-REPRODUCED" if len(out) != len(want) else "not reproduced")
finally:
    shutil.rmtree(d)
