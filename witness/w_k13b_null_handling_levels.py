"""C13 (and C05): whether a NULL satisfies '!=' / 'not in' depends on which row group it is in.

Row-level evaluation (_column_filter) uses numpy/pandas semantics, where a missing value
*does* satisfy `x != c` and `x not in [...]`, so null rows are returned.  Row-group pruning
(filter_out_stats) on the other hand drops a row group as soon as the filtered column is
all-null in it - for every operator, including '!=' and 'not in'.  The result of one
filtered read therefore matches neither reading of the predicate:
  * "null satisfies nothing"  -> the null rows of mixed row groups must not be returned;
  * "null satisfies != / not in" -> the all-null row group must not be pruned.
The witness accepts either consistent answer and fails on the mixture.
"""
import os
import sys
import tempfile

import numpy as np
import pandas as pd

from fastparquet import ParquetFile, write

problems = []
with tempfile.TemporaryDirectory() as d:
    df = pd.DataFrame({
        "id": np.arange(6),
        # row group 0: null, 1.0, 2.0      row group 1: all null
        "f": [np.nan, 1.0, 2.0, np.nan, np.nan, np.nan],
        "s": pd.Series([None, "a", "b", None, None, None], dtype=object),
    })
    fn = os.path.join(d, "nulls.parq")
    write(fn, df, row_group_offsets=[0, 3], stats=True)       # has_nulls=True: NaN/None stored as NULL
    pf = ParquetFile(fn)
    assert [rg.num_rows for rg in pf.row_groups] == [3, 3]
    assert pf.statistics["null_count"]["f"] == [1, 3]
    assert pf.statistics["null_count"]["s"] == [1, 3]

    cases = [
        ("f", "!=", 1.0,       [2],    [0, 2, 3, 4, 5]),
        ("f", "not in", [5.0], [1, 2], [0, 1, 2, 3, 4, 5]),
        ("s", "!=", "a",       [2],    [0, 2, 3, 4, 5]),
        ("s", "not in", ["zz"], [1, 2], [0, 1, 2, 3, 4, 5]),
    ]
    for col, op, val, strict, loose in cases:
        got = pf.to_pandas(filters=[(col, op, val)], row_filter=True).id.tolist()
        cnt = int(pf.count(filters=[(col, op, val)], row_filter=True))
        if got not in (strict, loose):
            problems.append(
                "filters=[(%r,%r,%r)], row_filter=True returned ids %s (count=%d); a NULL-never-matches "
                "reading gives %s, a NULL-matches reading gives %s" % (col, op, val, got, cnt, strict, loose))
        # C05 view of the same thing: rows the library itself considers qualifying (the nulls of
        # row group 0 are returned) are lost when they sit in the all-null row group 1
        kept = pf.to_pandas(filters=[(col, op, val)]).id.tolist()
        if 0 in got and not {3, 4, 5} <= set(kept):
            problems.append(
                "filters=[(%r,%r,%r)]: null row id=0 is treated as qualifying, yet row group 1 "
                "(ids 3,4,5, all null) was pruned: kept ids %s" % (col, op, val, kept))

if problems:
    print("FAIL")
    for p in problems:
        print("  -", p)
    sys.exit(1)
print("OK")
