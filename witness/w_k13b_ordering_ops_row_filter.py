"""C13: ordering operators in the row-level filter raise TypeError on legal columns.

_column_filter() applies the Python operator directly to `df[name].values`:
  * a text column with at least one NULL comes back as an object array containing None,
    so '<', '<=', '>', '>=' raise "'>' not supported between instances of 'NoneType' and 'str'";
  * a categorical column comes back as an unordered pandas Categorical, for which the same
    operators raise "Unordered Categoricals can only compare equality or not".
The identical filters work at row-group level (row_filter=False).
"""
import os
import sys
import tempfile

import numpy as np
import pandas as pd

from fastparquet import ParquetFile, write

problems = []
with tempfile.TemporaryDirectory() as d:
    df = pd.DataFrame({
        "id": np.arange(6),
        "s": pd.Series(["a", None, "c", "b", "d", "a"], dtype=object),
        "c": pd.Categorical(["b", "a", "c", "a", "c", "b"]),
    })
    fn = os.path.join(d, "ord.parq")
    write(fn, df, row_group_offsets=3)
    pf = ParquetFile(fn)

    cases = [
        ("s", ">", "a", [2, 3, 4]),
        ("s", "<=", "b", [0, 3, 5]),
        ("c", ">", "a", [0, 2, 4, 5]),
        ("c", "<", "c", [0, 1, 3, 5]),
    ]
    for col, op, val, want in cases:
        # row-group level works and keeps everything needed
        got0 = pf.to_pandas(filters=[(col, op, val)]).id.tolist()
        assert set(want) <= set(got0), (col, op, got0)
        try:
            got = pf.to_pandas(filters=[(col, op, val)], row_filter=True).id.tolist()
            if got != want:
                problems.append("(%r,%r,%r) row_filter=True: got %s expected %s" % (col, op, val, got, want))
        except Exception as e:
            problems.append("to_pandas(filters=[(%r,%r,%r)], row_filter=True) raised %r" % (col, op, val, e))
        try:
            cnt = int(pf.count(filters=[(col, op, val)], row_filter=True))
            if cnt != len(want):
                problems.append("count (%r,%r,%r) = %d expected %d" % (col, op, val, cnt, len(want)))
        except Exception as e:
            problems.append("count(filters=[(%r,%r,%r)], row_filter=True) raised %r" % (col, op, val, e))

if problems:
    print("FAIL")
    for p in problems:
        print("  -", p)
    sys.exit(1)
print("OK")
