"""C05/C13: any filter on a tz-aware timestamp column raises TypeError.

The only type-correct constant for a tz-aware column is a tz-aware Timestamp, but
filter_out_stats() decodes min/max to tz-naive (UTC) numpy datetime64 values and then
evaluates `val > vmax`, and _column_filter() compares against `df[col].values`
(again tz-naive datetime64), so both the row-group pruning and the row-level filter raise
"Cannot compare tz-naive and tz-aware timestamps".
"""
import os
import sys
import tempfile

import numpy as np
import pandas as pd

from fastparquet import ParquetFile, write

problems = []
with tempfile.TemporaryDirectory() as d:
    n = 10
    df = pd.DataFrame({
        "x": np.arange(n),
        "t": pd.date_range("2020-01-01", periods=n, freq="D", tz="Europe/Berlin"),
    })
    fn = os.path.join(d, "tz.parq")
    write(fn, df, row_group_offsets=4)          # default stats='auto' -> stats for 't'
    pf = ParquetFile(fn)
    full = pf.to_pandas()
    assert str(full.t.dtype).startswith("datetime64[") and "Europe/Berlin" in str(full.t.dtype)

    val = pd.Timestamp("2020-01-05", tz="Europe/Berlin")
    want = list(df.x[df.t >= val])               # [4..9]
    for op, w in ((">=", want), ("==", [4]), ("in", [4])):
        v = [val] if op == "in" else val
        # row-group level (C05): result must contain every qualifying row
        try:
            got = list(pf.to_pandas(filters=[("t", op, v)]).x)
            if not set(w) <= set(got):
                problems.append("filters=[('t','%s',tz-aware)]: lost rows %s" % (op, sorted(set(w) - set(got))))
        except Exception as e:
            problems.append("filters=[('t','%s',%r)] raised %r" % (op, v, e))
        # row level (C13): exactly the qualifying rows
        try:
            got = list(pf.to_pandas(filters=[("t", op, v)], row_filter=True).x)
            if got != w:
                problems.append("row_filter: ('t','%s'): got %s expected %s" % (op, got, w))
        except Exception as e:
            problems.append("filters=[('t','%s',%r)], row_filter=True raised %r" % (op, v, e))

    # Even without statistics the row-level filter cannot evaluate the predicate
    fn2 = os.path.join(d, "tz_nostats.parq")
    write(fn2, df, row_group_offsets=4, stats=False)
    pf2 = ParquetFile(fn2)
    try:
        got = list(pf2.to_pandas(filters=[("t", ">=", val)], row_filter=True).x)
        if got != want:
            problems.append("no stats, row_filter: got %s expected %s" % (got, want))
    except Exception as e:
        problems.append("no stats: filters=[('t','>=',tz-aware)], row_filter=True raised %r" % (e,))

if problems:
    print("FAIL")
    for p in problems:
        print("  -", p)
    sys.exit(1)
print("OK")
