"""Witness (C15, known finding K15a): a LIST row whose elements continue across a page boundary.  cencoding.
_assemble_objects recognises "the first entries of this page belong to the previous page's last row" by `vali > 0`
(a *value* was consumed), not by "entries were collected": when the continuing elements are all null they are not
appended to the previous row but leak into the next one.  The file is built from the specification (v1 pages)."""
import os, shutil, struct, sys, tempfile
import numpy as np
from fastparquet import ParquetFile, parquet_thrift, writer
from fastparquet.cencoding import ThriftObject
T, R = parquet_thrift.Type, parquet_thrift.FieldRepetitionType


def uvarint(x):
    out = bytearray()
    while x > 127:
        out.append((x & 0x7F) | 0x80); x >>= 7
    out.append(x); return bytes(out)


def rle(levels):
    out = bytearray(); i = 0
    while i < len(levels):
        j = i
        while j < len(levels) and levels[j] == levels[i]:
            j += 1
        out += uvarint((j - i) << 1) + bytes([levels[i]]); i = j
    return struct.pack('<i', len(out)) + bytes(out)


def entries(rows):
    """(rep, def, value) triples for optional list of optional int32"""
    out = []
    for r in rows:
        if r is None:
            out.append((0, 0, None))
        elif not r:
            out.append((0, 1, None))
        else:
            for k, e in enumerate(r):
                out.append((1 if k else 0, 2 if e is None else 3, e))
    return out


def write(fn, rows, split):
    ent = entries(rows)
    pages = [ent[:split], ent[split:]]
    se = [ThriftObject.from_fields('SchemaElement', name='schema', num_children=1, i32=True),
          ThriftObject.from_fields('SchemaElement', name='l', num_children=1, repetition_type=R.OPTIONAL,
                                   converted_type=parquet_thrift.ConvertedType.LIST, i32=True),
          ThriftObject.from_fields('SchemaElement', name='list', num_children=1, repetition_type=R.REPEATED, i32=True),
          ThriftObject.from_fields('SchemaElement', name='element', type=T.INT32, repetition_type=R.OPTIONAL, i32=True)]
    with open(fn, 'wb') as f:
        f.write(b'PAR1'); start = f.tell()
        for pg in pages:
            vals = np.array([v for _, d, v in pg if d == 3], dtype='<i4').tobytes()
            body = rle([r for r, _, _ in pg]) + rle([d for _, d, _ in pg]) + vals
            dph = parquet_thrift.DataPageHeader(num_values=len(pg), encoding=parquet_thrift.Encoding.PLAIN,
                                                definition_level_encoding=parquet_thrift.Encoding.RLE,
                                                repetition_level_encoding=parquet_thrift.Encoding.RLE, i32=1)
            ph = parquet_thrift.PageHeader(type=parquet_thrift.PageType.DATA_PAGE, uncompressed_page_size=len(body),
                                           compressed_page_size=len(body), data_page_header=dph, i32=1)
            writer.write_thrift(f, ph); f.write(body)
        size = f.tell() - start
        cmd = ThriftObject.from_fields('ColumnMetaData', type=T.INT32, path_in_schema=['l', 'list', 'element'],
                                       encodings=[parquet_thrift.Encoding.PLAIN, parquet_thrift.Encoding.RLE], codec=0,
                                       num_values=len(ent), data_page_offset=start, total_uncompressed_size=size,
                                       total_compressed_size=size, i32list=[1, 4])
        chunk = parquet_thrift.ColumnChunk(file_offset=start, meta_data=cmd, file_path=None)
        rg = ThriftObject.from_fields('RowGroup', num_rows=len(rows), columns=[chunk], total_byte_size=size)
        fmd = ThriftObject.from_fields('FileMetaData', version=1, schema=se, num_rows=len(rows), row_groups=[rg],
                                       created_by=b'spec-encoder', i32list=[1])
        foot = writer.write_thrift(f, fmd); f.write(struct.pack('<I', foot)); f.write(b'PAR1')


tmp = tempfile.mkdtemp(); out = []; sanity = []
try:
    cases = [('continuation holds a value', [[1, 5, None], [2], None, [], [None, 3]], 1),
             ('no row crosses the boundary', [[1, None], [2], None, [], [None, 3]], 2),
             ('continuation holds only nulls', [[1, None, None], [2], None, [], [None, 3]], 1)]
    for tag, rows, split in cases:
        fn = os.path.join(tmp, 'l.parquet')
        write(fn, rows, split)
        try:
            got = [None if v is None else list(v) for v in ParquetFile(fn).to_pandas()['l']]
        except Exception as e:
            got = repr(e)
        if got != rows:
            (out if 'only nulls' in tag else sanity).append('%s: encoded %s, read %s' % (tag, rows, got))
finally:
    shutil.rmtree(tmp)
if sanity:
    print('WITNESS-BROKEN (control cases differ):', *sanity, sep='\n  '); sys.exit(2)
if out:
    print('DEFECT-REPRODUCED:', *out, sep='\n  '); sys.exit(1)
print('OK')
