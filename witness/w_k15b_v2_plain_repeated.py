"""K15b: a PLAIN-encoded v2 data page of a LIST column is not assembled (IndexError).  Exits 1 while the finding stands."""
import importlib.util, os, sys, tempfile
import fastparquet
here = os.path.dirname(os.path.dirname(os.path.abspath(__file__)))
spec = importlib.util.spec_from_file_location('demo', os.path.join(here, 'seeded', 'C15-z1', 'demo.py'))
m = importlib.util.module_from_spec(spec); spec.loader.exec_module(m)
tmp = tempfile.mkdtemp(); fn = os.path.join(tmp, 'f.parquet')
rows = [[1, 2], [3], None]
m.write_list_file(fn, [rows], dict_enc=False, v2=True)
try:
    got = m.plainify(fastparquet.ParquetFile(fn).to_pandas()['a'].tolist())
except Exception as e:
    print('v2 PLAIN LIST page: %s: %s' % (type(e).__name__, str(e)[:90])); sys.exit(1)
if got != rows:
    print('v2 PLAIN LIST page read as %r' % got); sys.exit(1)
print('OK')
