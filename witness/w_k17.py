"""Witness K17: a masked-dtype index column is reported as Int64 but read back as int64."""
import os, tempfile, shutil
import pandas as pd
from fastparquet import write, ParquetFile
d = tempfile.mkdtemp()
try:
    fn = os.path.join(d, "a.parquet")
    df = pd.DataFrame({"v": [1.0, 2.0, 3.0]}, index=pd.Index([10, 20, 30], dtype="Int64", name="i"))
    write(fn, df)
    pf = ParquetFile(fn)
    rep = pf.dtypes["i"]
    got = pf.to_pandas().index.dtype
    print("reported dtype of i:", rep, "| index dtype after read:", got)
    print("DEFECT-REPRODUCED" if str(rep) != str(got) else "not reproduced")
finally:
    shutil.rmtree(d)
