"""K20a: a handle on an open file-like object gives that one object to every read; concurrent reads interleave their
seeks.  Exits 1 while the finding stands (a single wrong frame in the trials is enough)."""
import io, os, sys, threading
os.dup2(os.open(os.devnull, os.O_WRONLY), 2)     # the thrift parser prints a line per corrupt field
import numpy as np, pandas as pd, fastparquet

sys.setswitchinterval(1e-6)
buf = io.BytesIO()
df = pd.DataFrame({'a': np.arange(20000), 'b': np.arange(20000) * 0.5, 'c': np.arange(20000) % 7})
fastparquet.write(buf, df, row_group_offsets=100)
pf = fastparquet.ParquetFile(io.BytesIO(buf.getvalue()))
wrong = []
def work():
    for _ in range(10):
        try:
            out = pf.to_pandas()
            if not out.a.equals(df.a) or not out.b.equals(df.b):
                wrong.append('frame differs')
        except Exception as e:
            wrong.append('%s' % type(e).__name__)
ts = [threading.Thread(target=work) for _ in range(12)]
[t.start() for t in ts]; [t.join() for t in ts]
if wrong:
    print('%d of 120 concurrent reads of a file-like backed handle went wrong (%s ...)' % (len(wrong), wrong[0])); sys.exit(1)
print('OK')
