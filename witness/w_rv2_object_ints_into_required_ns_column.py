"""Plain integers in an object column are still stored raw in a REQUIRED
timestamp[ns] column (has_nulls=False or 'infer'); commit 3817da7 only guards
the OPTIONAL branch of write_column.
"""
import os, sys, tempfile
import numpy as np, pandas as pd
from fastparquet import write, ParquetFile

d = tempfile.mkdtemp()
ser = pd.Series(np.array(["2020-01-01T00:00", "2021-06-01T12:00"], dtype="M8[ns]"))
ints = pd.DataFrame({"c": pd.Series([5, 6], dtype=object)})
bad = 0
for has_nulls in (True, "infer", False):
    fn = os.path.join(d, "a.parq")
    write(fn, pd.DataFrame({"c": ser}), has_nulls=has_nulls)
    try:
        write(fn, ints, append=True)
    except ValueError as e:
        print("has_nulls=%-7r refused: %s" % (has_nulls, e))
        continue
    out = ParquetFile(fn).to_pandas()["c"]
    print("has_nulls=%-7r ACCEPTED; the integers 5, 6 read back as %s" % (has_nulls, out.iloc[2:].tolist()))
    bad += 1
print("problem shows" if bad else "no problem")
sys.exit(1 if bad else 0)
