"""logicalType TIMESTAMP(MILLIS|MICROS) given alone is not completed with
converted_type TIMESTAMP_MILLIS / TIMESTAMP_MICROS (the table quoted in
parquet.thrift asks for it, for isAdjustedToUTC = *).  Reading goes through a
separate logicalType path, but the writer needs converted_type: appending the
file's own data raises KeyError.
"""
import os, struct, sys, tempfile
import numpy as np, pandas as pd
from fastparquet import write, ParquetFile, parquet_thrift
from fastparquet.cencoding import ThriftObject
from fastparquet.writer import write_thrift


def patch_footer(fn, patch):
    fmd = ParquetFile(fn).fmd
    patch(fmd)
    with open(fn, "rb+") as f:
        f.seek(-8, 2)
        size = struct.unpack("<I", f.read(4))[0]
        f.seek(-(size + 8), 2)
        n = write_thrift(f, fmd)
        f.write(struct.pack("<I", n) + b"PAR1")
        f.truncate()


d = tempfile.mkdtemp()
CT = parquet_thrift.ConvertedType
bad = 0
for unit, res, want in (("MILLIS", "ms", CT.TIMESTAMP_MILLIS), ("MICROS", "us", CT.TIMESTAMP_MICROS)):
    for utc in (True, False):
        fn = os.path.join(d, "a.parq")
        ser = pd.Series(np.array(["2020-01-01T00:00", "2021-06-01T12:00"], dtype="M8[%s]" % res))
        write(fn, pd.DataFrame({"c": ser}), has_nulls=False)

        def patch(fmd):
            se = fmd.schema[1]
            se.converted_type = None       # as a writer that only knows LogicalType
            se[10] = ThriftObject.from_fields("LogicalType", TIMESTAMP=ThriftObject.from_fields(
                "TimestampType", isAdjustedToUTC=utc,
                unit=ThriftObject.from_fields("TimeUnit", **{unit: {}}))).contents
            fmd.key_value_metadata = []
        patch_footer(fn, patch)
        pf = ParquetFile(fn)
        ct = pf.schema.schema_element(["c"]).converted_type
        got = pf.to_pandas()
        tag = "TIMESTAMP(%s, isAdjustedToUTC=%s):" % (unit, utc)
        print(tag, "converted_type after load =", ct, "(wanted %d);" % want, "read as", got["c"].dtype)
        bad += ct != want
        try:
            write(fn, got, append=True)
            print(tag, "append of what was read: ok")
        except Exception as e:
            print(tag, "append of what was read: %s %s" % (type(e).__name__, e))
            bad += 1
print("problem shows" if bad else "no problem")
sys.exit(1 if bad else 0)
